#!/usr/bin/env python3
"""Writes LayoutDefs.tla = spec/Layout.tla without its RECURSIVE sections (tlapm cannot load them):
the header up to push_datum, and the layout facts / Contract at the end, verbatim.
usage: layout_defs.py <Layout.tla> <LayoutDefs.tla>"""
import sys
lines = open(sys.argv[1]).read().split("\n")
i_push = next(i for i, x in enumerate(lines) if x.startswith("Push("))
i_end1 = next(i for i in range(i_push, len(lines)) if lines[i].startswith("-----"))
i_facts = next(i for i, x in enumerate(lines) if "Layout facts about ONE variant" in x)
out = lines[:i_end1] + ["-" * 78] + lines[i_facts:]
text = "\n".join(out).replace("MODULE Layout", "MODULE LayoutDefs", 1)
assert "RECURSIVE" not in text
open(sys.argv[2], "w").write(text)
