"""Generated-code lab pipeline (C03b, C04, C05, C06, C07, C13b, C14, C15, C16): definitions ->
REAL builder + REAL generate() (harness/genlab_gen) -> modules compiled by rustc
(harness/genlab_run) -> operation scripts executed in child processes (debug + release with
hooks, release without hooks) -> TLC trace validation (spec/RecordTrace.tla)."""

import json
import os
import random
import re
import shutil
import subprocess
from concurrent.futures import ThreadPoolExecutor

import common
from common import (CORPUS, HARNESS, REPO, ToolError, Stage, cargo_build, log, run_tlc, sh)

GEN_DIR = os.path.join(HARNESS, "genlab_run", "src", "gen")
COMPILE_DIR = os.path.join(HARNESS, "genlab_compile", "src", "gen")

COPY_KEYS = ["P1", "P2", "P4", "P8", "P16", "Odd3", "Odd12", "Odd24", "Over16", "Zst", "ZstA8"]
TRACKED_KEYS = ["Tracked", "TrackedOdd", "TrackedBig", "Str", "VecU"]
AUTO_KEYS = ["RcT", "CellT", "PtrT", "GuardT", "FnRc", "MxCell"]
ZST_KEYS = ["Zst", "ZstA8", "ZstDrop"]
ALL_KEYS = COPY_KEYS + TRACKED_KEYS + ["ZstDrop"]


def A(name, key, uninit=False, via="typed"):
    return {"op": "add", "name": name, "key": key, "uninit": uninit, "via": via}


def R(name):
    return {"op": "remove", "name": name}


def C(strategy="default"):
    return {"op": "close", "strategy": strategy}


def core_definitions():
    """The repository's own example definitions (mapped to palette keys) and a hand-written set
    of shapes the properties single out."""
    ds = []
    # examples/readme
    ds.append(("readme", ["clone", "serde"], [A("integer", "P8", True), C(), A("string", "Str"), R("integer"), C(),
                                               A("signed_integer", "P8", True), R("string"), C()]))
    # examples/fibonacci
    ds.append(("fibonacci", [], [A("fibo_iter", "P8", True), C(), A("fibo_rounding", "P8", True), C(),
                                 R("fibo_iter"), R("fibo_rounding"), A("ok", "P1", True), A("msg", "Str"), C()]))
    # examples/machin (machin_truc)
    ds.append(("machin", ["clone"], [A("datum_a", "P4", True), A("datum_b", "P4", True), C(), A("datum_c", "P4", True), C(),
                                     R("datum_a"), C(), A("datum_d", "P1", True), A("datum_e", "P2", True),
                                     A("datum_f", "P4", True), C(), A("machin_enum", "P1"), C(),
                                     R("datum_b"), R("datum_c"), R("datum_d"), R("datum_e"), R("datum_f"),
                                     R("machin_enum"), A("datum_string", "Str"), A("datum_array", "TrackedBig"), C()]))
    # examples/machin (index_first_char)
    ds.append(("index_first_char", [], [A("words", "Str"), C(), R("words"), A("word", "Str"), C(),
                                        A("first_char", "P4"), C(), R("word"), A("group", "VecU"), C()]))
    # examples/machin (serialize_deserialize): the last variant is empty
    ds.append(("serialize_deserialize", ["serde"], [A("datum_a", "P4", True), A("datum_b", "P4", True), C(),
                                                    A("datum_c", "P4", True), C(), R("datum_a"), C(),
                                                    A("datum_v", "VecU"), C(), R("datum_b"), R("datum_c"), R("datum_v"), C()]))
    # byte reuse: an added field exactly fills the bytes of a removed one
    ds.append(("reuse_exact", ["clone", "serde"], [A("a", "Tracked"), A("b", "P8"), A("c", "Str"), C(),
                                                   R("a"), A("d", "Tracked"), C(), R("c"), A("e", "VecU"), C("basic")]))
    # zero-size data in front of / behind a gap, zero-size droppable
    ds.append(("zst_gaps", ["clone", "serde"], [A("a", "Tracked"), A("z", "Zst"), A("c", "P4"), C(), R("a"),
                                                A("zd", "ZstDrop"), A("d", "Tracked"), C(), A("za", "ZstA8"), R("c"), R("zd"), C("basic"),
                                                R("d"), R("z"), C()]))
    # over-aligned field introduced late: the record alignment is set by a later variant
    ds.append(("late_overalign", ["clone"], [A("a", "P1"), A("b", "Odd3"), C(), A("o", "Over16", True), C(),
                                             R("o"), A("w", "P16"), C("append")]))
    # a datum removed and a new datum with the SAME name added in one step (twice)
    ds.append(("same_name_step", ["clone", "serde"], [A("payload", "Tracked"), A("k", "P4"), C(), R("payload"), A("payload", "Str"), C(),
                                                      R("payload"), A("payload", "TrackedOdd"), R("k"), C("basic")]))
    # ... and a new datum with the same name AND the same type, landing in the very same bytes
    ds.append(("same_name_same_type", ["clone"], [A("score", "P4"), A("label", "Str"), A("rank", "P8", True), C(),
                                                  R("score"), A("score", "P4"), R("label"), A("label", "Str"), C(),
                                                  R("rank"), A("rank", "P8", True), R("label"), A("label", "Str"), C("basic")]))
    # zero-size data at the END of the declaration order (and a variant of zero-size data only)
    ds.append(("zst_tail", ["clone", "serde"], [A("id", "P4"), A("name", "Str"), A("marker", "Zst"), C(), A("tail2", "ZstDrop"), C(),
                                                R("id"), R("name"), C()]))
    # several zero-size droppable data of ONE type, which end up at the same offset
    ds.append(("two_zst_same_type", ["clone", "serde"], [A("t", "Tracked"), A("g1", "ZstDrop"), A("g2", "ZstDrop"), A("z1", "Zst"), A("z2", "Zst"), C(),
                                                         R("g1"), A("g3", "ZstDrop"), C(), R("t"), C("basic")]))
    # an over-aligned zero-size datum LAST in memory behind a padding hole, then data appended,
    # then a variant closed with the default strategy
    ds.append(("zst_last_append", ["clone"], [A("a", "P1"), A("z", "ZstA8"), C("append"), A("b", "P2"), A("x", "Odd3"), C("append"),
                                              A("c", "P4", True), A("t", "TrackedOdd"), C(), R("b"), A("d", "P2"), C()]))
    # one step adds fields in the order mandatory, may-be-uninitialised, mandatory (twice)
    ds.append(("mand_opt_mand", ["clone", "serde"], [A("k", "P4"), C(), A("m1", "Tracked"), A("o1", "P4", True), A("m2", "Str"), C(),
                                                     R("k"), A("m3", "P8"), A("o2", "P2", True), A("o3", "Odd3", True), A("m4", "TrackedOdd"), C("basic")]))
    # later variants that add only may-be-uninitialised data / nothing while carrying droppable data
    ds.append(("serde_later_uninit", ["clone", "serde"], [A("label", "Tracked"), A("count", "P4"), A("name", "Str"), C(),
                                                          A("flag", "P1", True), C(), R("count"), C(), A("w", "Over16", True), C()]))
    # a zero-size datum is the most-aligned field of the definition (alignment marker)
    ds.append(("zst_overalign", ["clone"], [A("a", "P4"), A("b", "P2"), A("c", "Odd3"), C(), R("a"), A("marker", "ZstA8"), C(),
                                            A("t", "TrackedOdd"), C("basic")]))
    # variant made only of removals, empty first variant, only-uninit variant, orphan datum
    ds.append(("only_removals", ["serde"], [C(), A("x", "P8", True), A("y", "TrackedOdd"), C(), R("x"), R("y"), C()]))
    ds.append(("only_uninit", ["clone", "serde"], [A("u1", "P4", True), A("u2", "Odd12", True), C(), A("u3", "P2", True), C()]))
    ds.append(("orphan", [], [A("a", "P4"), A("ghost", "Tracked"), R("ghost"), C(), A("b", "Str"), C()]))
    # an ordinary field with a lower id than a may-be-uninitialised one, odd sizes
    ds.append(("mixed_order", ["clone", "serde"], [A("label", "Str"), A("count", "P4", True), A("odd", "Odd24"), C(),
                                                   A("t", "TrackedOdd"), A("n", "P2", True), R("count"), C("append_rev")]))
    # auto traits: fields that are not Send / not Sync in some variants only
    ds.append(("auto_rc", [], [A("a", "P4"), C(), A("r", "RcT"), C(), R("r"), C()]))
    ds.append(("auto_cell", [], [A("c", "CellT"), A("a", "P8"), C(), R("c"), A("g", "GuardT"), C()]))
    ds.append(("auto_ptr", ["clone"], [A("a", "Tracked"), C(), A("p", "PtrT"), C()]))
    # Send + Sync types whose NAMES mention a type that is neither (C14, converse direction)
    # a field type named Option<..> at the end of the declaration order; a user generic over a std type
    ds.append(("opt_tail", ["clone", "serde"], [A("id", "P4"), A("label", "Str"), A("note", "OptP4"), A("rank", "OptP4", True), C(),
                                                R("id"), A("tail", "P2"), C()]))
    ds.append(("wrapped_std", ["clone", "serde"], [A("a", "P4"), A("w", "WrapStr"), C(), A("b", "Tracked"), R("a"), C()]))
    ds.append(("auto_generic", ["clone"], [A("a", "P4"), A("f", "FnRc"), C(), A("m", "MxCell"), C(), R("f"), C()]))
    # through a pre-computed table: typed and dynamic entry points
    ds.append(("via_table", ["serde"], [A("a", "P8", True, "dynamic"), A("b", "TrackedOdd", False, "dynamic"), A("c", "P2"), C(),
                                        R("a"), A("d", "Str", False, "dynamic"), C()]))
    out = []
    for name, frags, calls in ds:
        out.append({"name": name, "fragments": frags, "calls": calls,
                    "resolver": "table" if name == "via_table" else "host"})
    return out


def random_definition(rng, idx):
    nvar = rng.choice([1, 2, 2, 3, 3, 4])
    calls = []
    live = []
    n = 0
    auto = rng.random() < 0.15
    for v in range(nvar):
        nadd = rng.randrange(0 if v > 0 else (0 if rng.random() < 0.1 else 1), 5)
        nrem = 0 if not live else rng.randrange(0, len(live) + 1)
        if rng.random() < 0.5:
            nrem = min(nrem, 1)
        if v > 0 and nadd == 0 and nrem == 0:
            nadd = 1
        freed = []
        for name in rng.sample(live, nrem):
            calls.append(R(name))
            live.remove(name)
            freed.append(name)
        for _ in range(nadd):
            n += 1
            r = rng.random()
            if auto and r < 0.3:
                key = rng.choice(AUTO_KEYS)
            elif r < 0.55:
                key = rng.choice(COPY_KEYS)
            elif r < 0.9:
                key = rng.choice(TRACKED_KEYS)
            else:
                key = "ZstDrop"
            un = key in COPY_KEYS and rng.random() < 0.4
            name = "f%d" % n
            if freed and rng.random() < 0.25:
                name = freed.pop()      # the name of a datum removed in this very step is taken again
            calls.append(A(name, key, un))
            live.append(name)
            if rng.random() < 0.06:
                calls.append(R(name))   # orphan: added and removed before the close
                live.remove(name)
        calls.append(C(rng.choice(["default", "default", "default", "simple", "basic", "append", "append_rev"])))
    frags = rng.choice([[], ["clone"], ["serde"], ["clone", "serde"], ["clone", "serde"]])
    return {"name": "random%d" % idx, "fragments": frags, "calls": calls, "resolver": "host"}


def refill_definition(rng, idx):
    """Holes refilled by the gap-fitting strategy: a first variant of word-sized data, a small datum
    that is freed with them and one or two small survivors (so that the hole ends on a boundary that
    is misaligned for the data put into it), then a step that frees the words and adds several
    data, among them owned ones whose size is not a power of two."""
    calls = []
    words = []
    n = 0
    for _ in range(rng.randrange(2, 5)):
        n += 1
        calls.append(A("w%d" % n, rng.choice(["P8", "P8", "P8", "P8", "P4", "P16"])))
        words.append("w%d" % n)
    if rng.random() < 0.8:
        n += 1
        calls.append(A("w%d" % n, rng.choice(["P4", "P4", "P2"])))
        words.append("w%d" % n)
    for _ in range(rng.randrange(1, 3)):
        n += 1
        calls.append(A("s%d" % n, rng.choice(["P4", "P4", "P2", "P1", "Odd3"])))
    calls.append(C(rng.choice(["default", "append", "default"])))
    for name in words:
        if rng.random() < 0.9:
            calls.append(R(name))
    for _ in range(rng.randrange(3, 6)):
        n += 1
        calls.append(A("r%d" % n, rng.choice(["TrackedOdd", "TrackedOdd", "P8", "P8", "Tracked", "P4", "Odd12"])))
    calls.append(C("default"))
    if rng.random() < 0.5:
        calls.append(R("r%d" % n))
        calls.append(A("x%d" % (n + 1), rng.choice(["Tracked", "P8", "TrackedOdd"])))
        calls.append(A("x%d" % (n + 2), rng.choice(["P2", "TrackedOdd", "P4"])))
        calls.append(C("default"))
    frags = rng.choice([[], ["clone"], ["clone", "serde"]])
    return {"name": "refill%d" % idx, "fragments": frags, "calls": calls, "resolver": "host"}


# shapes of builder histories that the lab palette can express: (size, align) -> (owned key, Copy key)
SHAPE_KEYS = {(0, 1): ("ZstDrop", "Zst"), (0, 8): (None, "ZstA8"), (1, 1): (None, "P1"), (2, 2): (None, "P2"),
              (4, 4): (None, "P4"), (8, 8): (None, "P8"), (16, 16): (None, "P16"), (3, 1): (None, "Odd3"),
              (12, 4): ("TrackedOdd", "Odd12"), (24, 8): (None, "Odd24"), (16, 8): ("Tracked", None),
              (48, 8): ("TrackedBig", None), (32, 8): ("Str", None)}


def definition_from_history(h, idx):
    """A builder history (tools/builder_pipe.py) as a lab definition, or None when it uses a shape the
    palette lacks or a request the builder rejects."""
    calls, ids, live, pending, n = [], {}, set(), set(), 0
    for c in h.get("calls", []):
        if c["op"] == "add":
            ks = SHAPE_KEYS.get((c["size"], c["align"]))
            if not ks:
                return None
            un = bool(c.get("uninit"))
            key = ks[1] if (un or not ks[0]) else ks[0]
            if key is None or c["name"] in {ids[i] for i in live | pending}:
                return None
            n += 1
            ids[n] = c["name"]
            pending.add(n)
            calls.append(A(c["name"], key, un and key in COPY_KEYS))
        elif c["op"] == "remove":
            i = c["id"]
            if i not in live | pending:
                return None
            (live if i in live else pending).discard(i)
            calls.append(R(ids[i]))
        elif c["op"] == "close":
            live |= pending
            pending = set()
            calls.append(C(c["strategy"]))
    if pending or not calls or calls[-1]["op"] != "close":
        return None
    return {"name": "from_builder%d" % idx, "fragments": ["clone"], "calls": calls, "resolver": "host",
            "source": "builder history hid %s" % h.get("hid")}


def feedback_definitions(seed, limit=8):
    """Builder histories on which the BUILDER pipeline (quick tier) reported a layout tag, as lab
    definitions: a layout defect is then also exercised through the generated code (C03-C07).  None on a
    tree whose layouts are right."""
    import builder_pipe
    import shutil
    br = builder_pipe.pipeline("quick", seed)
    layout = ("C01:", "C02:", "C03:")
    out, seen = [], set()

    def take(bad):
        for b in bad:
            if not b["tag"].startswith(layout) or b["hid"] in seen or not b.get("history") or len(out) >= limit:
                continue
            seen.add(b["hid"])
            d = definition_from_history(b["history"], len(out) + 1)
            if d:
                d["why"] = b["tag"]
                out.append(d)

    take(br["bad"])
    if len(out) < limit and any(t.startswith(layout) for t in br["tags"]):
        # the reported histories use shapes the palette lacks: look for the same kind of trouble among
        # histories made of palette shapes only (real builder + BuilderTrace, as in the builder pipeline)
        rng = random.Random(seed + 7)
        hs = []
        while len(hs) < 4000:
            h = builder_pipe.random_history(rng, 100000 + len(hs), "palette")
            h["converts"] = []
            hs.append(h)
        work = os.path.join(common.WORK, "feedback-%d" % os.getpid())
        os.makedirs(work, exist_ok=True)
        try:
            bin_dir = cargo_build(["builder_driver"], release=True)
            shards, _ = builder_pipe.run_histories(hs, work, bin_dir, tag="fb")
            bad, _ = builder_pipe.validate_traces(shards, work)
        finally:
            shutil.rmtree(work, ignore_errors=True)
        byhid = {h["hid"]: h for h in hs}
        take([dict(b, history=byhid.get(b["hid"])) for b in sorted(bad, key=lambda b: (len(byhid[b["hid"]]["calls"]), b["hid"]))])
    return out


# ----------------------------------------------------------------------------- scripts

class Pay:
    def __init__(self):
        self.n = 0

    def next(self):
        self.n = self.n % 190 + 1
        return self.n


def fields(d, v):
    return d["variants"][v - 1]["fields"]


def vals_for(pay, fs):
    return [[f["fid"], 0 if f["size"] == 0 else pay.next()] for f in fs]


def plus_fields(d, v, full):
    ids = d["variants"][v - 1]["plus"]
    fs = [f for f in fields(d, v) if f["fid"] in ids]
    return fs if full else [f for f in fs if not f["uninit"]]


def place(rng):
    return rng.choice(["stack", "box", "vec"])


def chain_script(d, rng, pay, forms, start="new", finish="unpack"):
    """Create a record of the first variant, convert it through all variants with the given
    forms, dumping the fields after every step."""
    ops = []
    nv = len(d["variants"])
    if start in ("new", "from_unpacked"):
        ops.append({"op": start, "slot": 1, "v": 1, "place": place(rng), "vals": vals_for(pay, fields(d, 1))})
    else:
        ops.append({"op": start, "slot": 1, "v": 1, "place": place(rng),
                    "vals": vals_for(pay, [f for f in fields(d, 1) if not f["uninit"]])})
    ops.append({"op": "dump", "slot": 1})
    for v in range(1, nv):
        form = forms[(v - 1) % len(forms)]
        full = form.startswith("full")
        if form == "full_simple" and rng.random() < 0.3:
            form = "vec"         # the same conversion through convert_vec_in_place on a vector of records
        ops.append({"op": "convert_" + form, "slot": 1, "place": place(rng), "vals": vals_for(pay, plus_fields(d, v + 1, full))})
        ops.append({"op": "dump", "slot": 1})
        if rng.random() < 0.3:
            ops.append({"op": "move", "slot": 1, "place": place(rng)})
            ops.append({"op": "dump", "slot": 1})
    ops.append({"op": finish, "slot": 1})
    return ops


def mutate_script(d, rng, pay, v):
    """Accessors on variant v: build (fully or from mandatory fields), write / touch / read
    fields in random order, then unpack or drop."""
    fs = fields(d, v)
    ops = []
    if rng.random() < 0.5:
        ops.append({"op": rng.choice(["new", "from_unpacked"]), "slot": 1, "v": v, "place": place(rng), "vals": vals_for(pay, fs)})
        init = {f["fid"] for f in fs}
    else:
        mand = [f for f in fs if not f["uninit"]]
        ops.append({"op": rng.choice(["new_uninit", "from_unpacked_uninit"]), "slot": 1, "v": v, "place": place(rng),
                    "vals": vals_for(pay, mand)})
        init = {f["fid"] for f in mand}
    ops.append({"op": "dump", "slot": 1})
    for _ in range(rng.randrange(2, 9)):
        if not fs:
            break
        f = rng.choice(fs)
        r = rng.random()
        if r < 0.45 or f["fid"] not in init:
            ops.append({"op": "set", "slot": 1, "f": f["fid"], "vals": vals_for(pay, [f])})
            init.add(f["fid"])
        elif r < 0.65:
            ops.append({"op": "touch", "slot": 1, "f": f["fid"]})
        elif r < 0.85:
            ops.append({"op": "get", "slot": 1, "f": f["fid"]})
        else:
            ops.append({"op": "move", "slot": 1, "place": place(rng)})
        ops.append({"op": "dump", "slot": 1})
    ops.append({"op": rng.choice(["unpack", "drop"]), "slot": 1})
    return ops


def clone_scripts(d, rng, pay, v):
    fs = fields(d, v)
    ntr = len([f for f in fs if f["tracked"]])
    out = []
    base = [{"op": "new", "slot": 1, "v": v, "place": place(rng), "vals": vals_for(pay, fs)}]
    # clone, then mutate / drop either one and look at the other
    ops = list(base) + [{"op": "clone", "slot": 1, "place": place(rng)}, {"op": "dump", "slot": 2}, {"op": "dump", "slot": 1}]
    if fs:
        f = rng.choice(fs)
        ops += [{"op": "set", "slot": 2, "f": f["fid"], "vals": vals_for(pay, [f])}, {"op": "dump", "slot": 1}, {"op": "dump", "slot": 2}]
        f = rng.choice(fs)
        ops += [{"op": "touch", "slot": 1, "f": f["fid"]}, {"op": "dump", "slot": 2}, {"op": "dump", "slot": 1}]
    first = rng.choice([1, 2])
    ops += [{"op": "drop", "slot": first}, {"op": "dump", "slot": 3 - first}, {"op": "unpack", "slot": 3 - first}]
    out.append(ops)
    # clone assignment onto a record with other contents
    ops = list(base) + [{"op": "new", "slot": 2, "v": v, "place": place(rng), "vals": vals_for(pay, fs)},
                        {"op": "dump", "slot": 2}, {"op": "clone_from", "slot": 1}, {"op": "dump", "slot": 2}, {"op": "dump", "slot": 1},
                        {"op": "drop", "slot": 1}, {"op": "dump", "slot": 2}, {"op": "drop", "slot": 2}]
    out.append(ops)
    # a panic in the clone of the k-th tracked field, for every k
    for k in range(1, ntr + 1):
        ops = list(base) + [{"op": "arm_clone_panic", "k": k}, {"op": "clone", "slot": 1, "place": "stack"},
                            {"op": "arm_clone_panic", "k": -1}, {"op": "dump", "slot": 1}, {"op": "drop", "slot": 1}]
        out.append(ops)
    # the same inside a clone assignment (the target is destroyed right after the panic)
    for k in range(1, ntr + 1):
        ops = list(base) + [{"op": "new", "slot": 2, "v": v, "place": place(rng), "vals": vals_for(pay, fs)},
                            {"op": "clone_from_panic", "slot": 1, "k": k}, {"op": "dump", "slot": 1}, {"op": "drop", "slot": 1}]
        out.append(ops)
    return out


def serde_scripts(d, rng, pay, v, thorough):
    fs = fields(d, v)
    n = len(fs)
    out = []
    fmts = ["json", "jsonvalue", "bincode"]
    if any(f["key"] == "OptP4" for f in fs):
        fmts = ["json", "jsonvalue"]      # the lab's bincode reader assumes one u32 per field
    for fmt in fmts:
        base = [{"op": "new", "slot": 1, "v": v, "place": place(rng), "vals": vals_for(pay, fs)},
                {"op": "ser", "slot": 1, "fmt": fmt}]
        out.append(base + [{"op": "de", "slot": 2, "v": v, "fmt": fmt, "mut": ["none", 0], "place": place(rng)},
                           {"op": "dump", "slot": 2}, {"op": "dump", "slot": 1}, {"op": "drop", "slot": 1}, {"op": "unpack", "slot": 2}])
        muts = [["extend", 0]]
        ks = list(range(0, n)) if thorough else sorted({0, max(0, n - 1), rng.randrange(0, max(1, n))})
        for k in ks:
            if k < n:
                muts.append(["truncate", k])
        ks = list(range(1, n + 1)) if thorough else sorted({1, n, rng.randrange(1, max(2, n + 1))})
        for k in ks:
            if 1 <= k <= n:
                muts.append(["corrupt", k])
        for m in muts:
            out.append(base + [{"op": "de", "slot": 2, "v": v, "fmt": fmt, "mut": m, "place": "stack"},
                               {"op": "drop", "slot": 2}, {"op": "dump", "slot": 1}, {"op": "drop", "slot": 1}])
    return out


FORMS = ["full_simple", "uninit_simple", "full_out", "uninit_out"]


def scripts_for(d, rng, tier, no_out=False):
    global FORMS
    saved = FORMS
    if no_out:
        FORMS = ["full_simple", "uninit_simple"]
    try:
        return _scripts_for(d, rng, tier, no_out)
    finally:
        FORMS = saved


def _scripts_for(d, rng, tier, no_out=False):
    pay = Pay()
    nv = len(d["variants"])
    res = []
    if nv == 0:
        return res
    # every chain of forms (4^(V-1), capped)
    chains = [[]]
    for _ in range(nv - 1):
        chains = [c + [f] for c in chains for f in FORMS]
    cap = 16 if tier == "quick" else 256
    if len(chains) > cap:
        chains = rng.sample(chains, cap)
    for c in chains:
        res.append(chain_script(d, rng, pay, c or ["full_simple"], start=rng.choice(["new", "from_unpacked"]),
                                finish=rng.choice(["unpack", "drop"])))
    res.append(chain_script(d, rng, pay, ["uninit_simple"], start="new_uninit", finish="drop"))
    res.append(chain_script(d, rng, pay, ["uninit_simple" if no_out else "uninit_out"], start="from_unpacked_uninit", finish="unpack"))
    for v in range(1, nv + 1):
        for _ in range(2 if tier == "quick" else 8):
            res.append(mutate_script(d, rng, pay, v))
        if "clone" in d["fragments"]:
            res += clone_scripts(d, rng, pay, v)
        if "serde" in d["fragments"]:
            res += serde_scripts(d, rng, pay, v, tier == "thorough")
    return res


# ----------------------------------------------------------------------------- TLC-generated definitions and scripts

KIND_KEY = {"T": ("Tracked", False), "Pu": ("P4", True), "P": ("P4", False), "O": ("Odd3", True), "Z": ("Zst", False),
            "ZD": ("ZstDrop", False), "D3": ("TrackedOdd", False), "B": ("Str", False), "W": ("Over16", True)}


def model_behaviours(tier, rng):
    """MCRecordReplay: every life of a record on every small definition of the model.  Returns
    {params-json: {"params", "offs", "behaviours": [ops...]}} for a sample of the definitions."""
    r = run_tlc("MCRecordReplay", "MCRecordReplay.cfg", workers=1, timeout=3000, heap="8g")
    if not r["ok"]:
        raise ToolError("MCRecordReplay failed:\n" + r["out"][-3000:])
    groups = {}
    n = 0
    for line in r["out"].splitlines():
        m = re.match(r'<<"REPLAY", "(.*)">>\s*$', line)
        if not m:
            continue
        js = json.loads(json.loads('"' + m.group(1) + '"'))
        pr = js["params"]
        if not pr["k2"] and not pr["rm"]:
            continue        # the real builder creates no second variant without a change
        n += 1
        key = json.dumps(pr, sort_keys=True)
        g = groups.setdefault(key, {"params": pr, "offs": js["offs"], "behaviours": []})
        g["behaviours"].append(js["ops"])
    keys = sorted(groups)
    k = 5 if tier == "quick" else 70
    if len(keys) > k:
        keys = rng.sample(keys, k)
    return {kk: groups[kk] for kk in keys}, {"states": r["states"], "distinct": r["distinct"], "behaviours": n,
                                             "definitions": len(groups), "definitions_used": len(keys)}


def model_definition(pr, idx):
    calls = []
    names = {}
    i = 0
    for kname in pr["k1"]:
        i += 1
        key, un = KIND_KEY[kname]
        names[i] = "m%d" % i
        calls.append(A(names[i], key, un))
    calls.append(C(pr["s1"]))
    for x in pr["rm"]:
        calls.append(R(names[x]))
    for kname in pr["k2"]:
        i += 1
        key, un = KIND_KEY[kname]
        names[i] = "m%d" % i
        calls.append(A(names[i], key, un))
    calls.append(C(pr["s2"]))
    return {"name": "model%d" % idx, "fragments": [], "calls": calls, "resolver": "host", "model_params": pr}


def model_script(d, ops, pay, rng):
    out = []
    v = None
    for o in ops:
        if o["op"] == "new":
            v = o["v"]
            fs = fields(d, v)
            if o["full"]:
                out.append({"op": "new", "slot": 1, "v": v, "place": place(rng), "vals": vals_for(pay, fs)})
            else:
                out.append({"op": "new_uninit", "slot": 1, "v": v, "place": place(rng),
                            "vals": vals_for(pay, [f for f in fs if not f["uninit"]])})
        elif o["op"] == "set":
            f = [x for x in fields(d, v) if x["fid"] == o["f"]]
            if not f:
                return None
            out.append({"op": "set", "slot": 1, "f": o["f"], "vals": vals_for(pay, f)})
        elif o["op"] == "convert":
            form = ("full" if o["full"] else "uninit") + "_" + ("out" if o["out"] else "simple")
            out.append({"op": "convert_" + form, "slot": 1, "place": place(rng),
                        "vals": vals_for(pay, plus_fields(d, v + 1, o["full"]))})
            v += 1
        elif o["op"] in ("drop", "unpack"):
            out.append({"op": o["op"], "slot": 1})
            v = None
        if v is not None:
            out.append({"op": "dump", "slot": 1})
    if v is not None:
        out.append({"op": "drop", "slot": 1})
    return out


# ----------------------------------------------------------------------------- stages

def store_is_alignment_free():
    """C07's store clause is bound textually (DESIGN 6.1): classify the body of
    RecordMaybeUninit::write in the current tree."""
    src = open(os.path.join(REPO, "truc_runtime", "src", "data.rs")).read()
    m = re.search(r"pub unsafe fn write<T>\(&mut self, offset: usize, t: T\) \{(.*?)\n    \}", src, re.S)
    body = m.group(1) if m else ""
    return ("write_unaligned" in body) or ("copy_nonoverlapping" in body and "ptr::write(" not in body)


def generate_lab(defs, out_dir, compile_too=False):
    """Runs genlab_gen on the definitions; returns the per-definition JSON (as built)."""
    bin_dir = cargo_build(["genlab_gen"])
    dp = os.path.join(out_dir, "defs.ndjson")
    with open(dp, "w") as f:
        for d in defs:
            f.write(json.dumps(d) + "\n")
    if os.path.isdir(GEN_DIR):
        shutil.rmtree(GEN_DIR)
    os.makedirs(GEN_DIR)
    cmd = [os.path.join(bin_dir, "genlab_gen"), dp, GEN_DIR]
    if compile_too:
        if os.path.isdir(COMPILE_DIR):
            shutil.rmtree(COMPILE_DIR)
        os.makedirs(COMPILE_DIR)
        cmd.append(COMPILE_DIR)
    _, o = sh(cmd, timeout=600)
    report = json.loads(o.strip().splitlines()[-1])
    built = {}
    for r in report:
        if r["status"] == "ok":
            with open(os.path.join(GEN_DIR, "d%d.json" % r["did"])) as f:
                built[r["did"]] = json.load(f)
    return report, built


def build_lab():
    """Compiles the lab in three flavours; a compile failure is DATA (C13), returned as text."""
    bins = {}
    errs = {}
    nh = os.path.join(HARNESS, "target", "nohooks")
    for name, rel, env in [("debug", False, None), ("release", True, None),
                           ("release-nohooks", True, {"RUSTFLAGS": "", "CARGO_ENCODED_RUSTFLAGS": "", "CARGO_TARGET_DIR": nh})]:
        cmd = ["cargo", "build", "--offline", "-p", "genlab_run"] + (["--release"] if rel else [])
        e = {"CARGO_NET_OFFLINE": "true"}
        if env:
            e.update(env)
        rc, out = sh(cmd, cwd=HARNESS, env=e, timeout=3000, check=False)
        if rc != 0:
            errs[name] = out[-8000:]
        else:
            base = nh if env else os.path.join(HARNESS, "target")
            bins[name] = os.path.join(base, "release" if rel else "debug", "genlab_run")
    return bins, errs


def run_scripts(exe, scripts_path, nscripts, trace_path):
    """Runs the driver in child processes; a child that dies (non-unwinding panic) is data: an
    `abort` event is appended and the run resumes after the script that died."""
    if os.path.exists(trace_path):
        os.remove(trace_path)
    skip = 0
    aborts = 0
    while skip < nscripts:
        p = subprocess.run([exe, scripts_path, trace_path, str(skip)], stdout=subprocess.PIPE, stderr=subprocess.STDOUT,
                           timeout=3000)
        if p.returncode == 0:
            break
        # find the script that was running
        last = None
        with open(trace_path) as f:
            for line in f:
                if '"ev":"script"' in line:
                    last = json.loads(line)["index"]
        aborts += 1
        with open(trace_path, "a") as f:
            f.write(json.dumps({"ev": "abort", "rc": p.returncode, "msg": p.stdout.decode("utf-8", "replace")[-300:]}) + "\n")
        if last is None or aborts > 200:
            raise ToolError("lab driver died before any script: rc=%s %s" % (p.returncode, p.stdout[-500:]))
        skip = last + 1
    return aborts


def validate(trace_files, store_free):
    def one(tf):
        r = run_tlc("RecordTrace", "RecordTrace.cfg", workers=1,
                    env={"TRACE": tf, "STORE_UNALIGNED": "1" if store_free else "0"}, dfs=True, timeout=3000, heap="3g")
        m = re.search(r'<<"VERDICT", "(.*)">>', r["out"])
        if not m or not r["ok"]:
            raise ToolError("record trace validation did not complete on %s:\n%s" % (tf, r["out"][-3000:]))
        v = json.loads(json.loads('"' + m.group(1) + '"'))
        if v["consumed"] != v["total"]:
            raise ToolError("record trace not fully consumed: %s" % tf)
        return v

    with ThreadPoolExecutor(max_workers=14) as ex:
        return list(ex.map(one, trace_files))


_BIG = re.compile(r'(?<![\w."])-?\d{10,}(?![\w."])')


def sanitize(line):
    """The process under test may be corrupted by the very defect being looked for: make every
    line digestible by TLC (32-bit integers, no null) without interpreting it."""
    if "null" in line or _BIG.search(line):
        line = _BIG.sub(lambda m: m.group(0) if abs(int(m.group(0))) < 2 ** 31 else "-1", line)
        line = line.replace(":null", ':""')
    return line


def shard_trace(trace_path, built, out_prefix, nshards):
    """Splits a driver trace at script boundaries, prefixing each script with the `def` event
    of its definition."""
    outs = [open("%s_%02d.ndjson" % (out_prefix, k), "w") for k in range(nshards)]
    cur = None
    k = -1
    lastdef = [None] * nshards
    n = 0
    with open(trace_path) as f:
        for line in f:
            if line.startswith('{"capsel"') or '"ev":"script"' in line[:200]:
                e = json.loads(line)
                k = (k + 1) % nshards
                cur = outs[k]
                if lastdef[k] != e["did"]:
                    d = dict(built[e["did"]])
                    d["ev"] = "def"
                    cur.write(json.dumps(d) + "\n")
                    lastdef[k] = e["did"]
                    n += 1
            if cur is not None:
                cur.write(sanitize(line))
                n += 1
    for o in outs:
        o.close()
    return [o.name for o in outs], n


def pipeline(tier, seed):
    def compute(out_dir):
        rng = random.Random(seed)
        res = {"tier": tier, "seed": seed}
        # S1: the generated-code layer on the composition builder layout -> templates -> bytes
        log("lab: S1 TLC model checking MCRecord_%s.cfg" % tier)
        from common import tlc_action_counts
        mc = run_tlc("MCRecord", "MCRecord_%s.cfg" % tier, workers=12, timeout=7000, heap="24g")
        res["mc"] = {"states": mc["states"], "distinct": mc["distinct"], "depth": mc["depth"], "ok": mc["ok"],
                     "violated": mc["violated"], "wall_s": mc["wall_s"], "actions": tlc_action_counts(mc["out"])}
        if not mc["ok"] and not mc["violated"]:
            raise ToolError("TLC did not finish on MCRecord:\n" + mc["out"][-3000:])
        st = run_tlc("MCRecord", "MCRecord_selftest.cfg", workers=4, timeout=600, heap="4g")
        res["mc_selftest_detects_wrong_template"] = bool(st["violated"])
        defs = core_definitions()
        nrandom = 10 if tier == "quick" else 120
        for i in range(nrandom):
            defs.append(random_definition(rng, i))
        nrefill = 6 if tier == "quick" else 60
        for i in range(nrefill):
            defs.append(refill_definition(rng, i))
        fb = feedback_definitions(seed)
        if fb:
            log("lab: %d definitions taken from builder histories with layout tags" % len(fb))
        defs += fb
        log("lab: S2 TLC replay generation (MCRecordReplay)")
        mgroups, res["replay_gen"] = model_behaviours(tier, rng)
        model_of = {}
        for kk in sorted(mgroups):
            md = model_definition(mgroups[kk]["params"], len(model_of) + 1)
            model_of[md["name"]] = mgroups[kk]
            defs.append(md)
        for i, d in enumerate(defs):
            d["did"] = i + 1
        log("lab: generating %d definitions through the real builder and generator" % len(defs))
        report, built = generate_lab(defs, out_dir, compile_too=True)
        # C13 (second sentence): every definition x every selection of the optional fragments
        rc, out = sh(["cargo", "check", "--offline", "-p", "genlab_compile"], cwd=HARNESS,
                     env={"CARGO_NET_OFFLINE": "true"}, timeout=3000, check=False)
        res["compile_matrix"] = {"modules": 4 * len(built), "ok": rc == 0, "failures": []}
        if rc != 0:
            bad_mods = sorted(set(re.findall(r"gen/c(\d+)_(\d)_gen\.rs", out)))
            if not bad_mods:
                raise ToolError("genlab_compile failed without naming a generated module:\n" + out[-4000:])
            for did, sel in bad_mods:
                did = int(did)
                first = re.search(r"(error[^\n]*\n[^\n]*gen/c%d_%s_gen\.rs[^\n]*)" % (did, sel), out)
                res["compile_matrix"]["failures"].append(
                    {"did": did, "name": defs[did - 1]["name"], "selection": ["", "clone", "serde", "clone+serde"][int(sel)],
                     "definition": defs[did - 1], "error": first.group(1)[:600] if first else ""})
        res["definitions"] = {"total": len(defs), "core": len(core_definitions()), "random": nrandom, "refill": nrefill, "from_builder_histories_with_layout_tags": len(fb),
                              "generated": len(built)}
        res["gen_failures"] = [{"did": r["did"], "name": defs[r["did"] - 1]["name"], "status": r["status"],
                                "definition": defs[r["did"] - 1]} for r in report if r["status"] != "ok"]
        log("lab: compiling the generated modules (3 builds)")
        bins, errs = build_lab()
        res["compile_failures"] = []
        rounds = 0
        while errs and rounds < 10:
            # a generated module that does not compile is DATA (C13): name the definitions,
            # drop them and go on with the rest of the lab
            rounds += 1
            text = "\n".join(errs.values())
            failing = sorted({int(m) for m in re.findall(r"gen/d(\d+)_(?:gen|drv)\.rs", text)})
            if not failing:
                raise ToolError("the lab does not compile and no generated module is named:\n" + text[-4000:])
            drop = []
            for did in failing:
                first = re.search(r"(error[^\n]*\n[^\n]*gen/d%d_(?:gen|drv)\.rs[^\n]*)" % did, text)
                in_gen = re.search(r"gen/d%d_gen\.rs" % did, text) is not None
                out_field = (re.search(r"no field `\w+` on type `[\w:]*Record\d+AndUnpackedOut", text) is not None
                             or re.search(r"pattern does not mention field", text) is not None
                             or re.search(r"Record\d+AndUnpackedOut[^\n]* does not have a field", text) is not None) \
                    and re.search(r"gen/d%d_drv\.rs" % did, text) is not None
                entry = {"did": did, "name": defs[did - 1]["name"], "definition": defs[did - 1],
                         "error": first.group(1)[:600] if first else ""}
                if not in_gen and out_field and not defs[did - 1].get("no_out"):
                    # the generated module compiles but its and-out result type lacks a removed field
                    # (C05); go on with a degraded driver so that the other forms are still exercised
                    entry["kind"] = "and-out-type-differs-from-the-removed-fields"
                    defs[did - 1]["no_out"] = True
                else:
                    entry["kind"] = "does-not-compile"
                    drop.append(did)
                res["compile_failures"].append(entry)
            failing = drop
            keep = [d for d in defs if d["did"] not in failing and d["did"] in built]
            report, built = generate_lab(keep, out_dir)
            bins, errs = build_lab()
        if errs:
            raise ToolError("the lab still does not compile after dropping failing definitions:\n" + "\n".join(errs.values())[-4000:])
        scripts = []
        drift = []
        nmodel = 0
        for did, d in sorted(built.items()):
            name = defs[did - 1]["name"]
            if name in model_of:
                # behaviours enumerated by TLC on this very definition; the model's offsets are
                # compared with the real builder's (S5: drift, never a verdict)
                g = model_of[name]
                real = {}
                for vv in d["variants"]:
                    for f in vv["fields"]:
                        real[f["fid"]] = f["off"]
                if any(real.get(i + 1, o) != o for i, o in enumerate(g["offs"]) if o != 1000000):
                    drift.append(name)
                pay = Pay()
                for ops in g["behaviours"]:
                    sc = model_script(d, ops, pay, rng)
                    if sc:
                        nmodel += 1
                        scripts.append({"sid": len(scripts) + 1, "did": did, "capsel": rng.choice([0, 0, 1, 2]), "ops": sc})
                continue
            for ops in scripts_for(d, rng, tier, no_out=bool(defs[did - 1].get("no_out"))):
                scripts.append({"sid": len(scripts) + 1, "did": did, "capsel": rng.choice([0, 0, 1, 2]), "ops": ops})
        res["model_scripts"] = nmodel
        res["model_drift"] = drift
        res["scripts"] = len(scripts)
        used = {s_["did"] for s_ in scripts}
        res["autotrait"] = {
            "types_probed": sum(len(built[d]["variants"]) for d in used) * 3,
            "nontrivial_variants": sum(1 for d in used for v in built[d]["variants"]
                                       if any((not f["send"]) or (not f["sync"]) for f in v["fields"])),
            "all_send_sync_variants": sum(1 for d in used for v in built[d]["variants"]
                                          if all(f["send"] and f["sync"] for f in v["fields"])),
        }
        sp = os.path.join(out_dir, "scripts.ndjson")
        with open(sp, "w") as f:
            for s in scripts:
                f.write(json.dumps(s) + "\n")
        store_free = store_is_alignment_free()
        res["store_is_alignment_free"] = store_free
        traces = []
        nev = 0
        res["aborts"] = {}
        for b, exe in bins.items():
            tp = os.path.join(out_dir, "trace_%s.ndjson" % b)
            log("lab: running %d scripts on the %s build" % (len(scripts), b))
            res["aborts"][b] = run_scripts(exe, sp, len(scripts), tp)
            files, n = shard_trace(tp, built, os.path.join(out_dir, "shard_%s" % b), 5)
            nev += n
            traces += [(b, f) for f in files]
            os.remove(tp)
        res["events"] = nev
        log("lab: TLC trace validation of %d events in %d shards" % (nev, len(traces)))
        vs = validate([t for _, t in traces], store_free)
        bysid = {s["sid"]: s for s in scripts}
        bad = []
        for (b, _), v in zip(traces, vs):
            for x in v["bad"]:
                x["build"] = b
                bad.append(x)
        per_tag = {}
        out_bad = []
        for x in sorted(bad, key=lambda x: (x["tag"], x["sid"], x["build"])):
            t = per_tag.setdefault(x["tag"], {"events": 0, "sids": [], "builds": set()})
            t["events"] += 1
            t["builds"].add(x["build"])
            if x["sid"] not in t["sids"]:
                t["sids"].append(x["sid"])
                if len(t["sids"]) <= 20:
                    s = bysid.get(x["sid"], {})
                    did = s.get("did")
                    out_bad.append({"tag": x["tag"], "sid": x["sid"], "line": x["line"], "build": x["build"],
                                    "def_name": defs[did - 1]["name"] if did else None,
                                    "script": s, "definition": defs[did - 1] if did else None})
        res["bad"] = out_bad
        res["tags"] = {k: {"events": v["events"], "scripts": len(v["sids"]), "builds": sorted(v["builds"])}
                       for k, v in per_tag.items()}
        res["consumed"] = sum(v["consumed"] for v in vs)
        res["samples"] = {"definition": defs[0], "script": scripts[0] if scripts else None}
        with open(traces[0][1]) as f:
            res["samples"]["trace_excerpt"] = [json.loads(x) for _, x in zip(range(10), f)][1:]
        for _, t in traces:
            os.remove(t)
        return res

    return Stage("lab", tier, seed).run(compute)
