#!/usr/bin/env python3
"""Rewrites the table of section 15 of DESIGN.md from seeded/*/meta.json."""
import glob, json, os, re
V = os.path.dirname(os.path.dirname(os.path.abspath(__file__)))
rows = []
for d in sorted(glob.glob(os.path.join(V, "seeded", "*", ""))):
    m = json.load(open(d + "meta.json"))
    name = os.path.basename(d.rstrip("/"))
    first = next((c for c in m["checks_run"] if c["check"].split()[1] == m["property"]), None)
    missed_first = first is not None and first["exit"] != 1
    rows.append("| `%s` | %s | %s | %s |" % (name, m["needs_to_manifest"], ", ".join(m["detected_by"]) or ("not a violation of the property (see note)" if m.get("outside_the_property") else "MISSED"),
                                            ("first run: exit %d. " % first["exit"] if missed_first else "") + m.get("note", "")))
table = "| change | what it needs to manifest | caught by (quick tier) | note |\n|---|---|---|---|\n" + "\n".join(rows) + "\n"
p = os.path.join(V, "DESIGN.md")
s = open(p).read()
a = s.index("| change | what it needs to manifest |")
b = s.index("\nTags that caught them:")
s = s[:a] + table + s[b:]
s = re.sub(r"(\d+|[A-Z][a-z-]+) changes were produced", "%d changes were produced" % len(rows), s)
open(p, "w").write(s)
print(len(rows), "rows")
