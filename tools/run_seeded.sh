#!/bin/sh
# usage: run_seeded.sh <seeded dir> <property>...   applies the patch to /repo, runs the quick checks, reverts
D=$(cd "$1" && pwd); shift
cd /repo && git diff --quiet || { echo "/repo is dirty"; exit 2; }
git -C /repo apply $D/patch.diff || exit 2
for p in "$@"; do
  /verif/tools/check $p --tier quick > /tmp/seeded_$p.out 2>&1; rc=$?
  echo "$(basename $D) $p rc=$rc $(grep -m1 -E '^VIOLATION|TOOL-ERROR' /tmp/seeded_$p.out)"
  grep -E "^  violation" /tmp/seeded_$p.out | head -3
done
git -C /repo checkout -- .
