"""Vector-conversion pipeline (C08, C09, C10): TLC model checking of spec/VecConvert.tla, replay
generation, execution of scenarios on the real try_convert_vec_in_place (debug + release with
hooks, release without hooks), TLC trace validation (spec/VecTrace.tla)."""

import json
import os
import random
import re
from concurrent.futures import ThreadPoolExecutor

from common import (CORPUS, HARNESS, ToolError, Stage, cargo_build, log, run_tlc, sh, tlc_action_counts)

OK_PAIRS = ["tracked", "box", "string", "big", "align64", "zst", "plain", "drop_to_plain", "plain_to_drop"]
MM_PAIRS = ["mm_size", "mm_align", "mm_both", "mm_zst_in", "mm_zst_out", "mm_align_down", "mm_size_down", "mm_both_down"]
# refusal grid (untracked elements): same alignment a in {1, 2, 4, 8} with sizes {0, a, 2a, 3a} in every ordered pair,
# and the same size in {0, 8, 24} under every ordered pair of alignments
GRID_PAIRS = (["g_a%d_s%d_s%d" % (a, s1, s2) for a in (1, 2, 4, 8) for s1 in (0, a, 2 * a, 3 * a)
               for s2 in (0, a, 2 * a, 3 * a) if s1 != s2]
              + ["g_s%d_a%d_a%d" % (sz, a1, a2) for sz in (0, 8, 24) for a1 in (1, 2, 4, 8) for a2 in (1, 2, 4, 8) if a1 != a2])


def from_tlc(line):
    m = re.match(r'<<"REPLAY", "(.*)">>\s*$', line)
    if not m:
        return None
    js = json.loads(json.loads('"' + m.group(1) + '"'))
    script = []
    for i, p in enumerate(js["script"]):
        script.append({"end": p["end"], "make": bool(p["make"]), "touch": bool(p["touch"]),
                       "drop_input": "early" if p["early"] else "late", "fid": 100 + i})
    return {"n": js["n"], "script": script, "predicted": {"outs": js["outs"], "result": js["result"]},
            "source": "tlc"}


def random_scenario(rng, maxn):
    n = rng.choice([0, 1, 2, 3, 5, 8, 13, 21, 34, maxn, rng.randrange(0, maxn + 1)])
    n = min(n, maxn)
    p_conv = rng.choice([0.25, 0.5, 0.75, 0.95])
    failing = rng.random() < 0.6
    fail_at = rng.randrange(0, n) if (failing and n > 0) else -1
    script = []
    for i in range(n):
        if i == fail_at:
            end = rng.choice(["err", "panic"])
        else:
            end = "converted" if rng.random() < p_conv else "abandoned"
        script.append({"end": end, "make": end == "converted" or rng.random() < 0.4,
                       "touch": rng.random() < 0.4, "drop_input": rng.choice(["early", "late"]),
                       "fid": 1000 + rng.randrange(0, 1000)})
    return {"n": n, "script": script, "extra_cap": rng.choice([0, 0, 1, 7]), "source": "random"}


def corpus_scenarios():
    res = []
    d = os.path.join(CORPUS, "vec")
    if os.path.isdir(d):
        for fn in sorted(os.listdir(d)):
            if fn.endswith(".json"):
                with open(os.path.join(d, fn)) as f:
                    for line in f:
                        if line.strip():
                            s = json.loads(line)
                            s["source"] = "corpus:" + fn
                            res.append(s)
    return res


def build_all():
    bins = {}
    bins["debug"] = os.path.join(cargo_build(["vec_driver"]), "vec_driver")
    bins["release"] = os.path.join(cargo_build(["vec_driver"], release=True), "vec_driver")
    nh = os.path.join(HARNESS, "target", "nohooks")
    cargo_build(["vec_driver"], release=True, extra_env={"RUSTFLAGS": "", "CARGO_TARGET_DIR": nh,
                                                         "CARGO_ENCODED_RUSTFLAGS": ""})
    bins["release-nohooks"] = os.path.join(nh, "release", "vec_driver")
    return bins


def run_driver(exe, sp, tp, nscenarios):
    """The driver runs in a child process; when the code under test kills it (heap corruption,
    abort) an `abort` event is appended and the run resumes after that scenario."""
    import subprocess
    if os.path.exists(tp):
        os.remove(tp)
    skip, aborts = 0, 0
    while skip < nscenarios:
        p = subprocess.run([exe, sp, tp, str(skip)], stdout=subprocess.PIPE, stderr=subprocess.STDOUT, timeout=3000)
        if p.returncode == 0:
            break
        last = None
        with open(tp, errors="replace") as f:      # a corrupted process may write garbage
            for line in f:
                if line.startswith('{"ev":"running"'):
                    try:
                        last = json.loads(line)["index"]
                    except ValueError:
                        pass
        aborts += 1
        with open(tp, "a") as f:
            f.write("\n" + json.dumps({"ev": "abort", "rc": p.returncode}) + "\n")
        if last is None or aborts > 500:
            raise ToolError("vec driver died before any scenario: rc=%s %s" % (p.returncode, p.stdout[-300:]))
        skip = last + 1
    # drop the bookkeeping lines (and partial lines of a killed run)
    nev = 0
    from lab_pipe import sanitize
    with open(tp, errors="replace") as f, open(tp + ".clean", "w") as o:
        for line in f:
            line = sanitize(line.strip())
            if not line or line.startswith('{"ev":"running"'):
                continue
            try:
                json.loads(line)
            except ValueError:
                continue
            o.write(line + "\n")
            nev += 1
    os.replace(tp + ".clean", tp)
    return {"scenarios": nscenarios, "events": nev, "aborts": aborts}


def validate(trace_files):
    def one(tf):
        r = run_tlc("VecTrace", "VecTrace.cfg", workers=1, env={"TRACE": tf}, dfs=True, timeout=3000, heap="3g")
        m = re.search(r'<<"VERDICT", "(.*)">>', r["out"])
        if not m or not r["ok"]:
            raise ToolError("vec trace validation did not complete on %s:\n%s" % (tf, r["out"][-3000:]))
        v = json.loads(json.loads('"' + m.group(1) + '"'))
        if v["consumed"] != v["total"]:
            raise ToolError("vec trace not fully consumed: %s" % tf)
        return v

    with ThreadPoolExecutor(max_workers=14) as ex:
        return list(ex.map(one, trace_files))


def pipeline(tier, seed):
    def compute(out_dir):
        res = {"tier": tier, "seed": seed}
        bins = build_all()
        # S1
        cfg = "MCVecConvert_%s.cfg" % tier
        log("S1 TLC model checking %s" % cfg)
        r = run_tlc("MCVecConvert", cfg, workers=10, coverage=True, timeout=3000, heap="12g")
        res["mc"] = {"states": r["states"], "distinct": r["distinct"], "depth": r["depth"], "ok": r["ok"],
                     "violated": r["violated"], "wall_s": r["wall_s"], "actions": tlc_action_counts(r["out"])}
        if not r["ok"] and not r["violated"]:
            raise ToolError("TLC did not finish on %s:\n%s" % (cfg, r["out"][-3000:]))
        # S2
        log("S2 TLC replay generation")
        r = run_tlc("MCVecReplay", "MCVecReplay_%s.cfg" % tier, workers=1, timeout=3000, heap="6g")
        if not r["ok"]:
            raise ToolError("vec replay generation failed:\n" + r["out"][-3000:])
        gen = [from_tlc(l) for l in r["out"].splitlines() if l.startswith('<<"REPLAY"')]
        gen = [g for g in gen if g]
        res["replay_gen"] = {"states": r["states"], "distinct": r["distinct"], "behaviours": len(gen)}
        rng = random.Random(seed)
        scs = []
        for s in corpus_scenarios():
            scs.append(s)
        ncorpus = len(scs)
        for i, g in enumerate(gen):
            pairs = OK_PAIRS if tier == "thorough" else [OK_PAIRS[i % len(OK_PAIRS)], OK_PAIRS[(i // 9 + 4) % len(OK_PAIRS)]]
            for p in dict.fromkeys(pairs):
                s = dict(g)
                s["pair"] = p
                scs.append(s)
        ntlc = len(scs) - ncorpus
        nrand = 400 if tier == "quick" else 12000
        for i in range(nrand):
            s = random_scenario(rng, 64)
            s["pair"] = OK_PAIRS[i % len(OK_PAIRS)]
            if s["pair"] == "zst":
                s["n"] = min(s["n"], 12)
                s["script"] = s["script"][:s["n"]]
            scs.append(s)
        # C10: the refusal matrix x lengths 0..4 (+ a long one)
        nmm = 0
        for p in MM_PAIRS:
            for n in [0, 1, 2, 3, 4, 9]:
                scs.append({"n": n, "script": [], "pair": p, "source": "matrix"})
                nmm += 1
        for p in GRID_PAIRS:
            for n in [0, 1, 3]:
                scs.append({"n": n, "script": [], "pair": p, "source": "matrix"})
                nmm += 1
        for i, s in enumerate(scs):
            s["sid"] = i + 1
        res["scenarios"] = {"corpus": ncorpus, "tlc": ntlc, "random": nrand, "refusal_matrix": nmm, "total": len(scs)}
        sp = os.path.join(out_dir, "scenarios.ndjson")
        with open(sp, "w") as f:
            for s in scs:
                f.write(json.dumps({k: s[k] for k in s if k not in ("predicted", "source")}) + "\n")
        traces = []
        nev = 0
        per_build = {}
        for b, exe in bins.items():
            tp = os.path.join(out_dir, "trace_%s.ndjson" % b)
            per_build[b] = run_driver(exe, sp, tp, len(scs))
            nev += per_build[b]["events"]
            # shard at scenario boundaries
            K = 5
            outs = [open(os.path.join(out_dir, "trace_%s_%d.ndjson" % (b, k)), "w") for k in range(K)]
            k = -1
            with open(tp) as f:
                for line in f:
                    if line.startswith('{"alignT"') or '"ev":"scenario"' in line:
                        k += 1
                    outs[k % K].write(line)
            for o_ in outs:
                o_.close()
                traces.append((b, o_.name))
            os.remove(tp)
        res["events"] = nev
        res["per_build"] = per_build
        log("S4 TLC trace validation of %d events in %d shards" % (nev, len(traces)))
        vs = validate([t for _, t in traces])
        bysid = {s["sid"]: s for s in scs}
        bad = []
        for (b, _), v in zip(traces, vs):
            for x in v["bad"]:
                x["build"] = b
                bad.append(x)
        per_tag = {}
        out_bad = []
        for x in sorted(bad, key=lambda x: (x["tag"], x["sid"], x["build"])):
            t = per_tag.setdefault(x["tag"], {"events": 0, "sids": []})
            t["events"] += 1
            if x["sid"] not in t["sids"]:
                t["sids"].append(x["sid"])
                if len(t["sids"]) <= 30:
                    s = bysid.get(x["sid"], {})
                    out_bad.append({"tag": x["tag"], "sid": x["sid"], "line": x["line"], "build": x["build"],
                                    "source": s.get("source"), "pair": s.get("pair"),
                                    "fail_kind": next((st["end"] for st in s.get("script", []) if st["end"] in ("err", "panic")), None),
                                    "scenario": {k: s[k] for k in s if k != "predicted"}})
        res["bad"] = out_bad
        res["tags"] = {k: {"events": v["events"], "scenarios": len(v["sids"])} for k, v in per_tag.items()}
        res["consumed"] = sum(v["consumed"] for v in vs)
        res["samples"] = {"tlc_behaviour": next((s for s in scs if s.get("source") == "tlc"), None),
                          "random_scenario": next((s for s in scs if s.get("source") == "random"), None)}
        with open(traces[0][1]) as f:
            res["samples"]["trace_excerpt"] = [json.loads(x) for _, x in zip(range(12), f)]
        for _, t in traces:
            os.remove(t)
        return res

    return Stage("vec", tier, seed).run(compute)
