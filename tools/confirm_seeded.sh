#!/bin/sh
# usage: confirm_seeded.sh <worktree> <patch.diff> <demo.rs> <crate: truc|truc_runtime>
# Confirms in a scratch worktree that the seeded change (1) compiles and passes the pinned suite,
# (2) makes the demonstration fail, (3) the demonstration passes without it.
set -u
WT=$1; PATCH=$2; DEMO=$3; CRATE=$4
export CARGO_TARGET_DIR=$WT/target CARGO_NET_OFFLINE=true
cd $WT || exit 2
git checkout -q -- . && git clean -fdq -e target
git apply $PATCH || { echo "PATCH-DOES-NOT-APPLY"; exit 2; }
SUITE=$(cargo test --workspace --offline --no-fail-fast 2>&1 | grep -E "^test result" | awk '{p+=$4; f+=$6} END {print p" passed "f" failed"}')
echo "suite-with-patch: $SUITE"
mkdir -p $CRATE/tests && cp $DEMO $CRATE/tests/demo.rs
(cd $CRATE && cargo test --offline --test demo 2>&1 | grep -E "^test result|error\[" | head -3) > /tmp/demo_with.txt
echo "demo-with-patch: $(cat /tmp/demo_with.txt | tr '\n' ' ')"
git apply -R $PATCH
(cd $CRATE && cargo test --offline --test demo 2>&1 | grep -E "^test result|error\[" | head -3) > /tmp/demo_without.txt
echo "demo-without-patch: $(cat /tmp/demo_without.txt | tr '\n' ' ')"
rm -rf $CRATE/tests/demo.rs
git checkout -q -- . 
