#!/usr/bin/env python3
"""Runs the quick pipelines with several seeds on the current tree and prints every tag seen
(except DRIFT / LEMMA and the recorded C14 finding): a way to look for false alarms."""
import os, sys, json
sys.path.insert(0, os.path.dirname(os.path.abspath(__file__)))
import builder_pipe, vec_pipe, lab_pipe, types_pipe, static_pipe
from common import load_findings, match_finding
seeds = [int(x) for x in sys.argv[1:]] or [1, 2, 3]
F = load_findings()
for s in seeds:
    for name, mod in (("builder", builder_pipe), ("vec", vec_pipe), ("lab", lab_pipe)):
        try:
            r = mod.pipeline("quick", s)
        except Exception as ex:
            print("seed", s, name, "TOOL-ERROR", str(ex)[:300]); continue
        tags = r.get("tags", {})
        odd = {t: v for t, v in tags.items() if not t.startswith(("DRIFT:", "LEMMA:"))
               and not match_finding(t.split(":")[0], {"tag": t}, F)}
        extra = []
        if name == "lab":
            extra = [x["name"] for x in r.get("compile_failures", [])] + [x["name"] for x in r.get("gen_failures", [])] \
                    + [x["name"] for x in r["compile_matrix"]["failures"]]
        print("seed", s, name, "tags:", json.dumps(odd) if odd else "none", ("compile/gen failures: %s" % extra) if extra else "", flush=True)
