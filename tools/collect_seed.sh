#!/bin/sh
# usage: collect_seed.sh <ID> <name> <crate>        (violating change: confirm in its worktree, keep under seeded/<name>)
#        collect_seed.sh <ID> <name> --benign      (benign change: suite only, keep under benign/<name>)
ID=$1; NAME=$2; CRATE=$3; V=/verif
if [ "$CRATE" = "--benign" ]; then
  D=$V/benign/$NAME; mkdir -p $D; cp /tmp/mut/$ID-out/patch.diff /tmp/mut/$ID-out/notes.md $D/; cp /tmp/mut/$ID-out/demo.rs $D/ 2>/dev/null
  cd /tmp/mut/$ID && git checkout -q -- . && git apply $D/patch.diff || { echo PATCH-DOES-NOT-APPLY; exit 2; }
  CARGO_TARGET_DIR=/tmp/mut/$ID/target cargo test --workspace --offline --no-fail-fast 2>&1 | grep -E "^test result" | awk '{p+=$4; f+=$6} END {print "suite-with-patch: "p" passed "f" failed"}'
else
  D=$V/seeded/$NAME; mkdir -p $D; cp /tmp/mut/$ID-out/patch.diff /tmp/mut/$ID-out/notes.md /tmp/mut/$ID-out/demo.rs $D/
  $V/tools/confirm_seeded.sh /tmp/mut/$ID $D/patch.diff $D/demo.rs $CRATE
fi
cd /; git -C /repo worktree remove --force /tmp/mut/$ID; rm -rf /tmp/mut/$ID
