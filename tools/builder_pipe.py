"""Builder pipeline (C01, C02, C03a, C12, C13a, C18a, C19, C20): TLC model checking of the
builder design, replay generation, execution of histories on the real builders, TLC trace
validation of everything the real code did."""

import json
import os
import random
import re
import time
from concurrent.futures import ThreadPoolExecutor

from common import (CORPUS, SPEC, ToolError, Stage, cargo_build, log, run_tlc, sh, tlc_action_counts)

STRATS = ["simple", "basic", "append", "append_rev"]
GSTRATS = ["append", "append_rev"]

MC_CONFIGS = {
    "quick": ["layout_quick", "requests_native_quick", "requests_generic", "convert_quick"],
    "thorough": ["layout_deep", "layout_zst", "layout_wide", "layout_odd", "requests_native",
                 "requests_generic", "convert"],
}
# which MC configuration speaks for which property (evidence)
MC_FOR = {
    "C01": ["layout"], "C02": ["layout"], "C03": ["layout"], "C13": ["layout"],
    "C12": ["requests", "layout"], "C20": ["convert"], "C18": ["layout"], "C19": ["layout"],
}

VIAS_PLAIN = ["typed", "copy", "dynamic", "override", "override_partial", "table"]
VIAS_UNINIT = ["uninit", "dynamic", "copy", "override", "override_partial", "table"]


# ----------------------------------------------------------------------------- histories

def pick_via(rng, uninit):
    return rng.choice(VIAS_UNINIT if uninit else VIAS_PLAIN)


PALETTE_SHAPES = [(0, 1), (0, 8), (1, 1), (2, 2), (4, 4), (4, 4), (8, 8), (8, 8), (8, 8), (16, 16), (3, 1), (12, 4), (12, 4),
                  (24, 8), (16, 8), (16, 8), (48, 8), (32, 8)]


def rand_shape(rng, profile):
    if profile == "palette":      # the shapes the generated-code lab has field types for
        return rng.choice(PALETTE_SHAPES)
    if profile == "small":
        return rng.choice([(0, 1), (1, 1), (2, 2), (4, 4), (8, 8), (3, 1), (12, 4), (0, 4)])
    r = rng.random()
    align = rng.choice([1, 1, 2, 2, 4, 4, 4, 8, 8, 16])
    if r < 0.10:
        size = 0
    elif r < 0.85:
        size = align * rng.choice([1, 1, 1, 2, 3, 3, 4, 5, 6, 8])
    else:
        # only through overrides / foreign tables: size not a multiple of the alignment
        size = rng.randrange(1, 40)
    return (size, align)


class GenState:
    """Book-keeping used only to pick interesting requests (not an oracle)."""

    def __init__(self):
        self.n = 0
        self.last = []
        self.add = []
        self.rem = []
        self.names = {}
        self.nvar = 0
        self.stale = []


def random_history(rng, hid, profile):
    kind = "native"
    if profile == "requests" and rng.random() < 0.35:
        kind = "generic"
    strategies = GSTRATS if kind == "generic" else STRATS + ["default"]
    st = GenState()
    calls = []
    if profile == "requests":
        nvars = rng.randrange(1, 6)
        maxadds = 5
        pool = ["a", "b", "c", "d", "e", "f"]
        shp = "small"
    elif profile == "big":
        nvars = rng.randrange(2, 9)
        maxadds = 32
        pool = None
        shp = "wide"
    elif profile == "palette":
        nvars = rng.randrange(2, 5)
        maxadds = 6
        pool = None
        shp = "palette"
    else:
        nvars = rng.randrange(1, 7)
        maxadds = 7
        pool = None
        shp = rng.choice(["small", "wide"])
    mono = rng.random() < 0.3
    strat0 = rng.choice(strategies)

    def add():
        size, align = rand_shape(rng, shp)
        uninit = rng.random() < 0.3
        if pool is not None:
            name = rng.choice(pool)
        else:
            name = "f%d" % (st.n + 1)
        cur_names = [st.names[i] for i in st.last if i not in st.rem] + [st.names[i] for i in st.add]
        ok = name not in cur_names
        calls.append({"op": "add", "name": name, "size": size, "align": align, "uninit": uninit,
                      "via": pick_via(rng, uninit)})
        if ok:
            st.n += 1
            st.names[st.n] = name
            st.add.append(st.n)

    def remove(valid):
        live = [i for i in st.last if i not in st.rem]
        if valid and (live or st.add):
            if st.add and rng.random() < 0.25:
                i = rng.choice(st.add)
                st.add.remove(i)
            elif live:
                i = rng.choice(live)
                st.rem.append(i)
            else:
                i = rng.choice(st.add)
                st.add.remove(i)
            calls.append({"op": "remove", "id": i})
        else:
            cands = [st.n + 1, st.n + 7, 0] + st.rem + st.stale
            calls.append({"op": "remove", "id": rng.choice(cands)})

    def close():
        s = strat0 if mono else rng.choice(strategies)
        calls.append({"op": "close", "strategy": s})
        if st.nvar == 0 or st.add or st.rem:
            st.stale += st.rem
            st.last = [i for i in st.last if i not in st.rem] + st.add
            st.add, st.rem = [], []
            st.nvar += 1

    def query():
        names = list(st.names.values()) or ["zz"]
        if rng.random() < 0.5:
            calls.append({"op": "qcur", "name": rng.choice(names + ["nope"])})
        else:
            calls.append({"op": "qvar", "variant": rng.randrange(0, st.nvar + 2),
                          "name": rng.choice(names + ["nope"])})

    for v in range(nvars):
        nadd = rng.randrange(0, maxadds + 1) if v > 0 else rng.randrange(0 if rng.random() < 0.1 else 1, maxadds + 1)
        nrem = 0 if v == 0 else rng.randrange(0, max(1, len(st.last)) + 1)
        if profile != "requests" and rng.random() < 0.5:
            nrem = min(nrem, 2)
        ops = ["a"] * nadd + ["r"] * nrem
        rng.shuffle(ops)
        for o in ops:
            if o == "a":
                add()
                if rng.random() < 0.08:
                    remove(True)  # often removes the datum that was just added: an orphan
            else:
                remove(True)
            if profile == "requests":
                r = rng.random()
                if r < 0.15:
                    remove(False)
                elif r < 0.25:
                    query()
                elif r < 0.30:
                    close()
        close()
        if profile == "requests" and rng.random() < 0.3:
            close()  # repeated close: no pending change
    if profile == "requests" and rng.random() < 0.15:
        add()  # build with unclosed changes
    calls.append({"op": "build"})
    conv = []
    if kind == "native":
        conv = [["native", rng.choice(STRATS)], ["generic", rng.choice(GSTRATS)]]
        if rng.random() < 0.25:
            # the k-th add closure of the helper fails (beyond the listed properties: EXT tags)
            conv[rng.randrange(2)].append(rng.randrange(1, 7))
    return {"hid": hid, "group": hid, "kind": kind, "calls": calls, "converts": conv,
            "source": "random:" + profile}


def from_tlc(line, hid):
    """REPLAY line of MCBuilderReplay -> driver history (+ the model's prediction)."""
    m = re.match(r'<<"REPLAY", "(.*)">>\s*$', line)
    if not m:
        return None
    js = json.loads(json.loads('"' + m.group(1) + '"'))
    calls = []
    for i, c in enumerate(js["calls"]):
        op = c["op"]
        if op == "add":
            un = bool(c["uninit"])
            vias = VIAS_UNINIT if un else VIAS_PLAIN
            calls.append({"op": "add", "name": "n%s" % c["name"], "size": c["size"], "align": c["align"],
                          "uninit": un, "via": vias[(hid + i) % len(vias)]})
        elif op == "remove":
            calls.append({"op": "remove", "id": c["id"]})
        elif op == "close":
            calls.append({"op": "close", "strategy": c["strategy"]})
        elif op == "build":
            calls.append({"op": "build"})
    kind = js["kind"]
    conv = []
    if kind == "native":
        conv = [["native", STRATS[hid % 4]], ["generic", GSTRATS[hid % 2]]]
    return {"hid": hid, "group": hid, "kind": kind, "calls": calls, "converts": conv, "source": "tlc",
            "predicted": {"variants": js["variants"], "offs": [(-1 if o == 1000000 else o) for o in js["offs"]]}}


def corpus_histories(start_hid):
    res = []
    d = os.path.join(CORPUS, "builder")
    if os.path.isdir(d):
        for fn in sorted(os.listdir(d)):
            if not fn.endswith(".json"):
                continue
            with open(os.path.join(d, fn)) as f:
                for line in f:
                    line = line.strip()
                    if not line:
                        continue
                    h = json.loads(line)
                    h["hid"] = start_hid + len(res)
                    h["group"] = h["hid"]
                    h["source"] = "corpus:" + fn
                    res.append(h)
    return res


# ----------------------------------------------------------------------------- stages

def s1_model_check(tier, out_dir):
    res = {}
    for cfg in MC_CONFIGS[tier]:
        log("S1 TLC model checking MCBuilder_%s" % cfg)
        r = run_tlc("MCBuilderCfg", "MCBuilder_%s.cfg" % cfg, workers=12, coverage=False,
                    timeout=3000, heap="12g")
        with open(os.path.join(out_dir, "mc_%s.out" % cfg), "w") as f:
            f.write(r["out"][-200000:])
        res[cfg] = {"states": r["states"], "distinct": r["distinct"], "depth": r["depth"], "ok": r["ok"],
                    "violated": r["violated"], "wall_s": r["wall_s"],
                    "actions": tlc_action_counts(r["out"])}
        if not r["ok"] and not r["violated"]:
            raise ToolError("TLC did not finish on %s:\n%s" % (cfg, r["out"][-3000:]))
    return res


def s2_replay_gen(tier, out_dir):
    cfg = "MCBuilderReplay_%s.cfg" % tier
    log("S2 TLC replay generation %s" % cfg)
    r = run_tlc("MCBuilderReplay", cfg, workers=1, timeout=3000, heap="8g")
    lines = [l for l in r["out"].splitlines() if l.startswith('<<"REPLAY"')]
    if not r["ok"]:
        raise ToolError("replay generation failed:\n" + r["out"][-3000:])
    return lines, {"states": r["states"], "distinct": r["distinct"], "behaviours": len(lines)}


def validate_traces(trace_files, out_dir, quirks="{}"):
    """TLC trace validation of each shard in parallel JVMs -> list of bad records, counters."""
    cfgp = os.path.join(SPEC, "BuilderTrace.cfg")

    def one(tf):
        r = run_tlc("BuilderTrace", "BuilderTrace.cfg", workers=1, env={"TRACE": tf}, dfs=True,
                    timeout=3000, heap="3g")
        m = re.search(r'<<"VERDICT", "(.*)">>', r["out"])
        if not m or not r["ok"]:
            with open(tf + ".tlc.out", "w") as f:
                f.write(r["out"])
            i = r["out"].find("Error:")
            raise ToolError("trace validation did not complete on %s (full TLC output in %s.tlc.out):\n%s"
                            % (tf, tf, r["out"][max(0, i - 200):i + 2500]))
        v = json.loads(json.loads('"' + m.group(1) + '"'))
        if v["consumed"] != v["total"]:
            raise ToolError("trace not fully consumed: %s" % tf)
        v["states"] = r["distinct"]
        return v

    with ThreadPoolExecutor(max_workers=14) as ex:
        vs = list(ex.map(one, trace_files))
    bad = []
    consumed = 0
    for v in vs:
        bad += v["bad"]
        consumed += v["consumed"]
    return bad, consumed


def split_chunks(path):
    """Trace file -> list of (hid, [lines]) split at reset events."""
    chunks = []
    cur = None
    with open(path) as f:
        for line in f:
            if line.startswith('{"ev":"reset"'):
                hid = json.loads(line)["hid"]
                cur = (hid, [line])
                chunks.append(cur)
            else:
                cur[1].append(line)
    return chunks


def run_histories(histories, out_dir, bin_dir, nshards=14, tag="h"):
    drv = os.path.join(bin_dir, "builder_driver")
    # the driver is sequential: run it on K chunks of the histories in parallel processes
    K = max(1, min(12, len(histories) // 200))
    parts = [histories[i::K] for i in range(K)]

    def one(args):
        k, mode = args
        hp = os.path.join(out_dir, "%s_histories_%02d.ndjson" % (tag, k))
        if mode == "A":
            with open(hp, "w") as f:
                for h in parts[k]:
                    f.write(json.dumps({x: h[x] for x in ("hid", "group", "kind", "calls", "converts")}) + "\n")
        tp = os.path.join(out_dir, "%s_trace%s_%02d.ndjson" % (tag, mode, k))
        sh([drv, hp, tp, mode], timeout=7200)      # mode B: a separately started process
        return tp

    with ThreadPoolExecutor(max_workers=K) as ex:
        tas = list(ex.map(one, [(k, "A") for k in range(K)]))
        tbs = list(ex.map(one, [(k, "B") for k in range(K)]))
    ta = os.path.join(out_dir, tag + "_traceA.ndjson")
    tb = os.path.join(out_dir, tag + "_traceB.ndjson")
    for dst, srcs in ((ta, tas), (tb, tbs)):
        with open(dst, "w") as o:
            for sp in srcs:
                with open(sp) as f:
                    for line in f:
                        o.write(line)
                os.remove(sp)
    for k in range(K):
        os.remove(os.path.join(out_dir, "%s_histories_%02d.ndjson" % (tag, k)))
    ca = split_chunks(ta)
    cb = {}
    for hid, lines in split_chunks(tb):
        cb[hid] = lines
    # group the chunks of one history together: runs 1,2,3 (process A) then run 4 (process B)
    by = {}
    order = []
    for hid, lines in ca:
        if hid not in by:
            by[hid] = []
            order.append(hid)
        by[hid] += lines
    # about 1500 histories (~150 k events) per shard: TLC reads a whole shard into memory
    nshards = max(1, min(max(nshards, len(order) // 1500 + 1), len(order) // 40 + 1))
    shard_files = [os.path.join(out_dir, "%s_shard%02d.ndjson" % (tag, i)) for i in range(nshards)]
    outs = [open(p, "w") for p in shard_files]
    nev = 0
    for i, hid in enumerate(order):
        o = outs[i % nshards]
        for line in by[hid]:
            o.write(line)
            nev += 1
        for line in cb.get(hid, []):
            o.write(line)
            nev += 1
    for o in outs:
        o.close()
    os.remove(ta)
    os.remove(tb)
    return shard_files, nev


def drift_report(histories, shard_files):
    """S5: TLC-enumerated histories carry the concrete model's predicted final layout; compare
    it with what the real builder produced (run 1).  Disagreement = MODEL-DRIFT, not a verdict."""
    pred = {h["hid"]: h["predicted"] for h in histories if "predicted" in h}
    n = 0
    drift = []
    for sf in shard_files:
        hid, run = None, None
        with open(sf) as f:
            for line in f:
                if line.startswith('{"ev":"reset"') or '"ev":"reset"' in line[:40]:
                    e = json.loads(line)
                    hid, run = e["hid"], e["run"]
                elif run == 1 and hid in pred and '"ev":"build"' in line:
                    e = json.loads(line)
                    if e.get("res") != "ok":
                        continue
                    n += 1
                    offs = [d["off"] for d in e["data"]]
                    if e["variants"] != pred[hid]["variants"] or offs != pred[hid]["offs"]:
                        drift.append(hid)
    return n, drift


def pipeline(tier, seed):
    def compute(out_dir):
        t0 = time.time()
        bin_dir = cargo_build(["builder_driver"], release=True)
        res = {"tier": tier, "seed": seed}
        res["mc"] = s1_model_check(tier, out_dir)
        lines, res["replay_gen"] = s2_replay_gen(tier, out_dir)
        rng = random.Random(seed)
        hs = corpus_histories(1)
        ncorpus = len(hs)
        cap = 1500 if tier == "quick" else 60000
        if len(lines) > cap:
            idx = sorted(rng.sample(range(len(lines)), cap))
            lines = [lines[i] for i in idx]
        for ln in lines:
            h = from_tlc(ln, len(hs) + 1)
            if h:
                hs.append(h)
        ntlc = len(hs) - ncorpus
        nrand = {"quick": {"layout": 800, "requests": 800, "big": 60},
                 "thorough": {"layout": 20000, "requests": 20000, "big": 1500}}[tier]
        for prof, n in nrand.items():
            for _ in range(n):
                hs.append(random_history(rng, len(hs) + 1, prof))
        res["histories"] = {"corpus": ncorpus, "tlc": ntlc, "random": sum(nrand.values()), "total": len(hs)}
        log("S3 running %d histories on the real builders" % len(hs))
        shards, nev = run_histories(hs, out_dir, bin_dir)
        res["events"] = nev
        log("S4 TLC trace validation of %d events in %d shards" % (nev, len(shards)))
        bad, consumed = validate_traces(shards, out_dir)
        res["consumed"] = consumed
        ndr, drift = drift_report(hs, shards)
        res["drift_checked"] = ndr
        res["drift_final_layout"] = drift[:20]
        # attach the history to every bad record (first 60 distinct histories per tag)
        byhid = {h["hid"]: h for h in hs}
        per_tag = {}
        out_bad = []
        for b in sorted(bad, key=lambda b: (b["tag"], b["hid"], b["line"])):
            k = b["tag"]
            per_tag.setdefault(k, {"count": 0, "hids": []})
            per_tag[k]["count"] += 1
            if b["hid"] not in per_tag[k]["hids"]:
                per_tag[k]["hids"].append(b["hid"])
                if len(per_tag[k]["hids"]) <= 40:
                    h = byhid.get(b["hid"], {})
                    out_bad.append({"tag": b["tag"], "hid": b["hid"], "line": b["line"],
                                    "source": h.get("source"), "history": h})
        res["bad"] = out_bad
        res["tags"] = {k: {"events": v["count"], "histories": len(v["hids"])} for k, v in per_tag.items()}
        res["samples"] = {
            "tlc_behaviour": next((h for h in hs if h.get("source") == "tlc"), None),
            "random_history": next((h for h in hs if str(h.get("source", "")).startswith("random")), None),
        }
        with open(shards[0]) as f:
            res["samples"]["trace_excerpt"] = [json.loads(x) for _, x in zip(range(6), f)]
        for sfile in shards:
            os.remove(sfile)
        return res

    return Stage("builder", tier, seed).run(compute)
