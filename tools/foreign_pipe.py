"""Foreign-host pipeline (C18, first sentence: "... never of the host's own"): the same builder
histories are run by the real builders on THIS host (run 1, compiled driver) and again on OTHER
hosts (runs 5, 6, ...: the very same driver binary source interpreted by Miri for a foreign target -
32-bit, other alignments of u64 / u128, big-endian).  The resolver of the driver answers from the
history, so every host receives the same sizes and alignments; spec/BuilderTrace.tla validates the
merged stream (every builder property on every host) and tags any difference between the layout
built on run 1 and the one built on a foreign host.  Miri is used as an emulator only: the verdict
is TLC's, on the trace."""

import json
import os
import random
from concurrent.futures import ThreadPoolExecutor

import builder_pipe
from common import HARNESS, ToolError, Stage, cargo_build, log, sh

TARGETS = {
    "quick": ["i686-unknown-linux-gnu", "mips-unknown-linux-gnu"],
    "thorough": ["i686-unknown-linux-gnu", "mips-unknown-linux-gnu", "s390x-unknown-linux-gnu",
                 "arm-unknown-linux-gnueabi"],
}
COUNTS = {"quick": {"gaps16": 70, "layout": 50}, "thorough": {"gaps16": 500, "layout": 400}}
MIRI_ENV = {"MIRIFLAGS": "-Zmiri-disable-isolation", "CARGO_TARGET_DIR": os.path.join(HARNESS, "target", "miri"),
            "CARGO_NET_OFFLINE": "true"}


def gaps16_history(rng, hid):
    """Gaps whose boundaries are multiples of 16 / 32 / 64: the tie-breaks of the strategies that look
    at the 'roundness' of an address are exercised at the alignments of the widest primitives."""
    calls = []
    n = 0
    live = []

    def add(size, align):
        nonlocal n
        n += 1
        calls.append({"op": "add", "name": "g%d" % n, "size": size, "align": align, "uninit": rng.random() < 0.2,
                      "via": rng.choice(["typed", "copy", "dynamic", "override"])})
        live.append(n)

    def big():
        align = rng.choice([4, 8, 16, 16])
        return (align * rng.choice([1, 2, 3, 4, 6, 8]) * (16 // align if rng.random() < 0.7 else 1), align)

    for _ in range(rng.randrange(1, 4)):
        add(*big())
    if rng.random() < 0.8:
        add(rng.choice([4, 8, 2]), rng.choice([4, 2, 1]))
    calls.append({"op": "close", "strategy": rng.choice(["simple", "default", "basic", "append", "append_rev"])})
    for _ in range(rng.randrange(1, 4)):
        for _ in range(rng.randrange(1, 3)):
            if live:
                i = rng.choice(live[: max(1, len(live) - 1)])
                live.remove(i)
                calls.append({"op": "remove", "id": i})
        for _ in range(rng.randrange(1, 3)):
            align = rng.choice([1, 2, 4, 4, 8, 16])
            add(align * rng.choice([1, 2, 4, 4, 8]), align)
        calls.append({"op": "close", "strategy": rng.choice(["simple", "default", "simple", "basic"])})
    calls.append({"op": "build"})
    return {"hid": hid, "group": hid, "kind": "native", "calls": calls, "converts": [], "source": "random:gaps16"}


def histories_for(tier, seed):
    rng = random.Random(seed + 18)
    hs = [h for h in builder_pipe.corpus_histories(1) if h.get("kind", "native") == "native"]
    for h in hs:
        h["converts"] = []
    for _ in range(COUNTS[tier]["gaps16"]):
        hs.append(gaps16_history(rng, 0))
    want = len(hs) + COUNTS[tier]["layout"]
    while len(hs) < want:
        h = builder_pipe.random_history(rng, 0, "layout")
        if h["kind"] == "native":
            h["converts"] = []
            hs.append(h)
    for i, h in enumerate(hs):
        h["hid"] = i + 1
        h["group"] = i + 1
    return hs


def run_foreign(hs, out_dir, run_of):
    """{target: run number} -> {target: trace path}; K interpreter processes per target."""
    manifest = os.path.join(HARNESS, "builder_driver", "Cargo.toml")
    base = ["cargo", "+nightly", "miri", "run", "--offline", "--quiet", "--manifest-path", manifest]
    empty = os.path.join(out_dir, "empty.ndjson")
    open(empty, "w").close()
    for t in run_of:
        log("foreign: building the driver for %s (interpreted)" % t)
        rc, out = sh(base + ["--target", t, "--", empty, os.path.join(out_dir, "empty_trace.ndjson"), "F%d" % run_of[t]],
                     cwd=HARNESS, env=MIRI_ENV, timeout=3000, check=False)
        if rc != 0:
            raise ToolError("the builder driver does not build / start under the interpreter for %s:\n%s" % (t, out[-3000:]))
    K = max(1, min(7, len(hs) // 8))
    jobs = []
    for t in run_of:
        for k in range(K):
            hp = os.path.join(out_dir, "fh_%s_%02d.ndjson" % (t, k))
            with open(hp, "w") as f:
                for h in hs[k::K]:
                    f.write(json.dumps({x: h[x] for x in ("hid", "group", "kind", "calls", "converts")}) + "\n")
            jobs.append((t, k, hp, os.path.join(out_dir, "ft_%s_%02d.ndjson" % (t, k))))

    def one(j):
        t, k, hp, tp = j
        rc, out = sh(base + ["--target", t, "--", hp, tp, "F%d" % run_of[t]], cwd=HARNESS, env=MIRI_ENV, timeout=7200,
                     check=False)
        if rc != 0:
            raise ToolError("interpreted driver failed for %s chunk %d:\n%s" % (t, k, out[-3000:]))
        return j

    with ThreadPoolExecutor(max_workers=14) as ex:
        list(ex.map(one, jobs))
    res = {}
    for t in run_of:
        chunks = {}
        for (tt, k, hp, tp) in jobs:
            if tt == t:
                for hid, lines in builder_pipe.split_chunks(tp):
                    chunks[hid] = lines
                os.remove(hp)
                os.remove(tp)
        res[t] = chunks
    return res


def merged_trace(hs, out_dir, bin_dir, targets):
    run_of = {t: 5 + i for i, t in enumerate(targets)}
    hp = os.path.join(out_dir, "native_h.ndjson")
    with open(hp, "w") as f:
        for h in hs:
            f.write(json.dumps({x: h[x] for x in ("hid", "group", "kind", "calls", "converts")}) + "\n")
    tp = os.path.join(out_dir, "native_t.ndjson")
    sh([os.path.join(bin_dir, "builder_driver"), hp, tp, "1"], timeout=3000)
    native = dict(builder_pipe.split_chunks(tp))
    foreign = run_foreign(hs, out_dir, run_of)
    shard = os.path.join(out_dir, "foreign_shard.ndjson")
    nev = 0
    hosts = {}
    with open(shard, "w") as o:
        for h in hs:
            for lines in [native.get(h["hid"], [])] + [foreign[t].get(h["hid"], []) for t in targets]:
                for line in lines:
                    o.write(line)
                    nev += 1
    for t in targets:
        first = next(iter(foreign[t].values()), None)
        if first:
            hosts[t] = json.loads(first[0]).get("host")
        missing = [h["hid"] for h in hs if h["hid"] not in foreign[t]]
        if missing:
            raise ToolError("no foreign trace for histories %s on %s" % (missing[:5], t))
    hosts["this host"] = json.loads(next(iter(native.values()))[0]).get("host")
    os.remove(hp)
    os.remove(tp)
    return shard, nev, hosts, run_of


def pipeline(tier, seed):
    def compute(out_dir):
        res = {"tier": tier, "seed": seed}
        bin_dir = cargo_build(["builder_driver"], release=True)
        hs = histories_for(tier, seed)
        targets = TARGETS[tier]
        log("foreign: %d histories on this host and on %s" % (len(hs), ", ".join(targets)))
        try:
            shard, nev, hosts, run_of = merged_trace(hs, out_dir, bin_dir, targets)
        except ToolError as ex:
            # the interpreter (or its sysroot for a foreign target) is not usable here: this stage adds
            # coverage to C18, its absence must not break the check of what the other stages cover
            log("foreign: stage unavailable, skipped: %s" % str(ex)[:300])
            return {"tier": tier, "seed": seed, "unavailable": str(ex)[:2000], "bad": [], "tags": {}, "histories": 0,
                    "events": 0, "consumed": 0, "hosts": {}, "runs": {}, "sample": None}
        log("foreign: TLC trace validation of %d events" % nev)
        bad, consumed = builder_pipe.validate_traces([shard], out_dir)
        byhid = {h["hid"]: h for h in hs}
        per, out_bad = {}, []
        for b in sorted(bad, key=lambda b: (b["tag"], b["hid"], b["line"])):
            per.setdefault(b["tag"], {"events": 0, "hids": []})
            per[b["tag"]]["events"] += 1
            if b["hid"] not in per[b["tag"]]["hids"]:
                per[b["tag"]]["hids"].append(b["hid"])
                if len(per[b["tag"]]["hids"]) <= 20:
                    out_bad.append({"tag": b["tag"], "hid": b["hid"], "line": b["line"], "history": byhid.get(b["hid"]),
                                    "foreign": True})
        res["bad"] = out_bad
        res["tags"] = {k: {"events": v["events"], "histories": len(v["hids"])} for k, v in per.items()}
        res["histories"] = len(hs)
        res["events"] = nev
        res["consumed"] = consumed
        res["hosts"] = hosts
        res["runs"] = run_of
        res["sample"] = hs[len(hs) // 2]
        os.remove(shard)
        return res

    return Stage("foreign", tier, seed).run(compute)
