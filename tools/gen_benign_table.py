#!/usr/bin/env python3
"""Rewrites the table of section 17 of DESIGN.md from benign/*/meta.json and the campaign logs
(.work/benign_round*.log lines '<name> <Cxx> rc=<n> ...' are folded into meta.json first)."""
import glob, json, os, re
V = os.path.dirname(os.path.dirname(os.path.abspath(__file__)))
runs = {}
for log in sorted(glob.glob(os.path.join(V, ".work", "benign_round*.log"))):
    for line in open(log):
        m = re.match(r"(\S+) (C\d+) rc=(\d+) ?(.*)", line)
        if m:
            runs.setdefault(m.group(1), {})[m.group(2)] = (int(m.group(3)), m.group(4).strip()[:100])
rows = []
for d in sorted(glob.glob(os.path.join(V, "benign", "*", ""))):
    name = os.path.basename(d.rstrip("/"))
    m = json.load(open(d + "meta.json"))
    if name in runs:
        m["checks_run"] = [{"check": "tools/check %s --tier quick" % p, "exit": rc, "first_line": fl}
                           for p, (rc, fl) in sorted(runs[name].items())]
        json.dump(m, open(d + "meta.json", "w"), indent=1)
    cr = m.get("checks_run", [])
    bad = [c for c in cr if c["exit"] != 0]
    res = "not run yet" if not cr else ("%d checks, all exit 0" % len(cr) if not bad else
                                        "; ".join("%s exit %d" % (c["check"].split()[1], c["exit"]) for c in bad))
    if m.get("note"):
        res += ". " + m["note"]
    rows.append("| `%s` | %s (in focus: %s) | %s |" % (name, m["what_changes"], m["property_in_focus"], res))
p = os.path.join(V, "DESIGN.md")
s = open(p).read()
a = s.index("| change | what changes | result of the 20 quick checks |")
b = s.index("\nWhat these changes exercise in the machinery")
s = s[:a] + "| change | what changes | result of the 20 quick checks |\n|---|---|---|\n" + "\n".join(rows) + "\n" + s[b:]
open(p, "w").write(s)
print(len(rows), "rows")
