"""Type-name / type-table pipeline (C17, C18 second sentence): TLC enumerates type terms and
their spellings (spec/TypeName.tla), harness/types_lab records what the REAL resolvers answer,
registers everything in a REAL table, looks every spelling up, round-trips the table through JSON,
doctors it into a foreign-target-like table; harness/types_probe lets rustc decide whether each
recorded name denotes the type; TLC validates the stream (spec/TypeTrace.tla)."""

import json
import os
import random
import re

from common import HARNESS, ToolError, Stage, cargo_build, log, run_tlc, sh


def pipeline(tier, seed):
    def compute(out_dir):
        res = {"tier": tier, "seed": seed}
        depth = 2 if tier == "quick" else 3
        log("types: TLC enumerates the type terms to depth %d" % depth)
        r = run_tlc("MCTypeName", "MCTypeName_%d.cfg" % depth, workers=1, timeout=3000, heap="8g")
        if not r["ok"]:
            raise ToolError("MCTypeName failed:\n" + r["out"][-3000:])
        terms = []
        for line in r["out"].splitlines():
            m = re.match(r'<<"REPLAY", "(.*)">>\s*$', line)
            if m:
                terms.append(json.loads(json.loads('"' + m.group(1) + '"')))
        res["mc"] = {"states": r["states"], "distinct": r["distinct"], "terms_enumerated": len(terms)}
        cap = 1500 if tier == "quick" else 9000
        if len(terms) > cap:
            rng = random.Random(seed)
            terms = [terms[i] for i in sorted(rng.sample(range(len(terms)), cap))]
        for i, t in enumerate(terms):
            t["id"] = i + 1
        tp = os.path.join(out_dir, "terms.ndjson")
        with open(tp, "w") as f:
            for t in terms:
                f.write(json.dumps(t) + "\n")
        gen = os.path.join(HARNESS, "types_lab", "src", "gen")
        os.makedirs(gen, exist_ok=True)
        with open(os.path.join(gen, "types.rs"), "w") as f:
            f.write("// generated from the terms TLC enumerated (tools/types_pipe.py)\n")
            f.write("pub fn all<V: crate::Visitor>(v: &mut V) {\n")
            for t in terms:
                f.write("    v.visit::<%s>(%d);\n" % (t["short"], t["id"]))
            f.write("}\n")
        bin_dir = cargo_build(["types_lab"], timeout=3000)
        trace = os.path.join(out_dir, "types_trace.ndjson")
        log("types: running the resolvers / tables on %d types" % len(terms))
        sh([os.path.join(bin_dir, "types_lab"), tp, trace], timeout=3000)
        recorded = {}
        with open(trace) as f:
            for line in f:
                if line.startswith('{"align"') or '"ev":"type"' in line:
                    e = json.loads(line)
                    if e.get("ev") == "type":
                        recorded[e["id"]] = e["recorded"]
        # rustc decides denotation: one const per line so that an error names its term
        pgen = os.path.join(HARNESS, "types_probe", "src", "gen")
        os.makedirs(pgen, exist_ok=True)
        first_line = 3
        with open(os.path.join(pgen, "probe.rs"), "w") as f:
            f.write("// generated: fn(T) -> <recorded name> for every enumerated type, nothing imported\n\n")
            for t in terms:
                f.write("const _P%d: fn(%s) -> %s = |x| x;\n" % (t["id"], t["short"], recorded[t["id"]]))
        log("types: rustc type-equality probes")
        rc, out = sh(["cargo", "check", "--offline", "-p", "types_probe", "--message-format=json"], cwd=HARNESS,
                     env={"CARGO_NET_OFFLINE": "true"}, timeout=3000, check=False)
        failed = {}
        for line in out.splitlines():
            if not line.startswith("{"):
                continue
            try:
                m = json.loads(line)
            except ValueError:
                continue
            if m.get("reason") == "compiler-message" and m["message"].get("level") == "error":
                code = (m["message"].get("code") or {}).get("code") or "error"
                for sp in m["message"].get("spans", []):
                    if sp.get("file_name", "").endswith("gen/probe.rs"):
                        tid = sp["line_start"] - first_line + 1
                        failed.setdefault(tid, [])
                        if code not in failed[tid]:
                            failed[tid].append(code)
        if rc != 0 and not failed:
            raise ToolError("types_probe failed without naming a probe line:\n" + out[-3000:])
        with open(trace, "a") as f:
            for t in terms:
                f.write(json.dumps({"ev": "probe", "id": t["id"], "ok": t["id"] not in failed,
                                    "codes": failed.get(t["id"], [])}) + "\n")
        nev = sum(1 for _ in open(trace))
        log("types: TLC trace validation of %d events" % nev)
        v = run_tlc("TypeTrace", "TypeTrace.cfg", workers=1, env={"TRACE": trace}, dfs=True, timeout=3000, heap="6g")
        m = re.search(r'<<"VERDICT", "(.*)">>', v["out"])
        if not m or not v["ok"]:
            raise ToolError("TypeTrace did not complete:\n" + v["out"][-3000:])
        verdict = json.loads(json.loads('"' + m.group(1) + '"'))
        byid = {t["id"]: t for t in terms}
        per = {}
        out_bad = []
        lines = open(trace).read().splitlines()
        for b in sorted(verdict["bad"], key=lambda b: (b["tag"], b["line"])):
            k = per.setdefault(b["tag"], 0)
            per[b["tag"]] = k + 1
            if k < 15:
                out_bad.append({"tag": b["tag"], "term": byid.get(b["id"]), "event": json.loads(lines[b["line"] - 1]),
                                "recorded": recorded.get(b["id"])})
        res["bad"] = out_bad
        res["tags"] = per
        res["terms"] = len(terms)
        res["events"] = nev
        res["std_types"] = sum(1 for x in lines if '"phase":"std"' in x)
        res["samples"] = [terms[0], terms[len(terms) // 2], {"recorded": recorded[terms[len(terms) // 2]["id"]]},
                          json.loads(lines[len(lines) // 3])]
        os.remove(trace)
        return res

    return Stage("types", tier, seed).run(compute)
