#!/usr/bin/env python3
"""Writes /verif/MANIFEST.json from the table below (single source of truth for the interface)."""
import json
import os
import subprocess

VERIF = os.path.dirname(os.path.dirname(os.path.abspath(__file__)))

TRACE_TECH = ("explicit TLA+ specification (spec/%s) model-checked with TLC; conformance by TLC trace validation "
              "of executions of the real code (spec/%s) driven by TLC-generated and seeded random behaviours")

CHECKS = {
    # id: (engine, level, text, note, technique, design_ref)
    "C01": ("builder", "model_checking",
            "TLC explores every builder history within the stated constants with the four strategies transcribed "
            "(every per-variant mixture, zero-size and odd shapes) and checks NoOverlap in every state; the same "
            "invariant is evaluated by TLC on every close of every history executed on the real builder "
            "(all TLC-enumerated behaviours of the replay configuration + seeded random histories far beyond the bounds).",
            "bounded constants (spec/MCBuilder_*.cfg); random histories are a sample; driver trusted to report the builder's public state",
            TRACE_TECH % ("Layout.tla, Builder.tla", "BuilderTrace.tla"), "7 C01"),
    "C02": ("builder", "model_checking",
            "Aligned, Placed, NonZstStrictlyIncreasing, WithinCapacity, RecordAlignCoversAll as TLC invariants of the "
            "design model and, on real-code traces, evaluated on the logged offsets and on MAX_SIZE / repr(align) parsed "
            "back from the text generate() produced for that very history.",
            "same as C01; published constants are parsed textually from the generated module",
            TRACE_TECH % ("Layout.tla, Builder.tla", "BuilderTrace.tla"), "7 C02"),
    "C03": ("builder", "model_checking",
            "NeverMoves / Frame as TLC action properties of the design model and as step checks on every close event "
            "(all offsets of all definitions are logged at every close and at build).",
            "same as C01",
            TRACE_TECH % ("Builder.tla, Record.tla", "BuilderTrace.tla, RecordTrace.tla"), "7 C03"),
    "C12": ("builder", "model_checking",
            "All valid and invalid requests are enabled in every state of the bounded model (both builder kinds); on "
            "real-code traces each event must be explained by the spec action selected by its result, the projected state "
            "(get_current_data, number of variants, look-ups) is compared after every call.",
            "same as C01",
            TRACE_TECH % ("Builder.tla", "BuilderTrace.tla"), "7 C12"),
    "C13": ("builder", "model_checking",
            "TotalOnAccepted (capacity, alignment, Display, generate never panic on a buildable definition) as TLC invariant; "
            "every build event of every real-code history logs the four outcomes.",
            "same as C01",
            TRACE_TECH % ("Builder.tla, Codegen.tla", "BuilderTrace.tla"), "7 C13"),
    "C18": ("builder", "model_checking",
            "Every history runs under a scripted resolver with Rust type parameters and entry points decorrelated from the "
            "scripted shapes; the trace spec requires the recorded type info to be the scripted one and equal layouts for equal "
            "shape histories.  The same histories are also run on OTHER HOSTS (the driver interpreted for i686 / mips / s390x / arm "
            "targets: other pointer width, u64 / u128 alignment, endianness) and the trace spec requires the layout built there to be "
            "the one built on this host; one entry point goes through a real pre-computed table with heap-held names.",
            "hyper-property over pairs of traces, decided with a memo variable in the trace specification; type tables: the "
            "registered / JSON-reloaded / doctored (foreign-target-like) table must answer exactly what was registered, typed and by name, "
            "and a layout built under the doctored table must use its answers (spec/TypeTable.tla, TypeTrace.tla)",
            TRACE_TECH % ("Builder.tla, TypeTable.tla", "BuilderTrace.tla, TypeTrace.tla"), "7 C18"),
    "C19": ("builder", "model_checking",
            "Each history is built twice in one process and once in a separately started process that meets the histories in the "
            "opposite order (state surviving between histories then differs); the trace spec requires equal "
            "offsets and equal hashes of generate() / Display text for the runs of one group.",
            "hash equality stands for byte equality (64-bit FNV over the whole text, two fragment selections)",
            TRACE_TECH % ("Builder.tla", "BuilderTrace.tla"), "7 C19"),
    "C20": ("builder", "model_checking",
            "ConvertPreserves as TLC invariant over every buildable definition of the bounded model x target kind x strategy "
            "(helper modelled as builder actions); the real helper runs over real target builders, its closure calls are validated "
            "as builder events and the returned map / target definition against ConvertPreserves.",
            "same as C01",
            TRACE_TECH % ("Builder.tla", "BuilderTrace.tla"), "7 C20"),
    "C08": ("vec", "model_checking",
            "TLC explores every vector length <= N and every converter behaviour (converted / abandoned / error / panic, input dropped "
            "early or late, previous output touched, output built then discarded) and checks ThreeRegions, CallsInOrderExactlyOnce, "
            "PrevIsLastOutput, ResultIsOutputsInOrder, AllocationReused; every TLC behaviour and seeded random scenarios (n <= 64, seven "
            "element-type pairs) run on the real function in debug and release builds with hooks and a hook-free release build; TLC validates "
            "each event stream (converter calls, drops, allocator, loop indices from the hooks, result).",
            "bounded N; element drops observed through instrumented types, the buffer through a logging global allocator",
            TRACE_TECH % ("VecConvert.tla", "VecTrace.tla"), "7 C08"),
    "C09": ("vec", "model_checking",
            "Same model: failure of either kind at every position combined with every prefix pattern; NeverDroppedTwice, AllDroppedAtEnd, "
            "BufferFreedAtEnd, NoCallAfterFailure, SamePayload; on the real code the error value / panic payload carry an identity and the "
            "release of the buffer must precede the failure reaching the caller.",
            "same as C08; crash points inside element destructors are out of scope",
            TRACE_TECH % ("VecConvert.tla", "VecTrace.tla"), "7 C09"),
    "C10": ("vec", "model_checking",
            "Refuse is the first action of the model (RefusedBeforeAnyRead); on the real code the full matrix of mismatching pairs "
            "(size, alignment, both, zero-size vs not) x lengths 0..4 and 9 must panic with the assertion, call the converter never and "
            "drop each input exactly once.",
            "the matrix is finite and enumerated completely; x86_64 only",
            TRACE_TECH % ("VecConvert.tla", "VecTrace.tla"), "7 C10"),
    "C04": ("lab", "model_checking",
            "TLC explores every sequence of interface operations (construct fully / from mandatory fields, write, convert x4, unpack, drop) "
            "on every small two-variant definition produced by the transcribed strategies, executing the generator's templates primitive by "
            "primitive on byte extents (MCRecord: Link = the buffer stores exactly the values the interface says).  The REAL generated "
            "modules of the lab (repository examples, hand-written shapes, random definitions), compiled by rustc, execute scripts in debug "
            "and release builds with hooks and a hook-free release build, records on the stack / in a Box / in a Vec, three capacities; TLC "
            "validates every event stream: each accessor / unpack result must be the value (serial, payload) the specification holds.",
            "bounded model; lab definitions and scripts are a sample; values observed through instrumented field types",
            TRACE_TECH % ("Record.tla, MCRecord.tla", "RecordTrace.tla"), "7 C04"),
    "C05": ("lab", "model_checking",
            "Same model (Convert with the four forms, ConvertVals / RemovedVals) and same lab: every chain of forms through all variants "
            "(4^(V-1), capped), fields dumped after every step, removed data compared by identity.",
            "same as C04", TRACE_TECH % ("Record.tla, MCRecord.tla", "RecordTrace.tla"), "7 C05"),
    "C06": ("lab", "model_checking",
            "Ledger invariants of MCRecord (DestroyedAtMostOnce, LedgerConsistent, NothingLeakedAtQuiescence); on the real code every "
            "make / clone / destroy event of the instrumented types is validated: a record-owned value may only be destroyed by the "
            "operation that removes it, must be destroyed by it, nothing is alive at the end of a script.",
            "same as C04", TRACE_TECH % ("Record.tla, MCRecord.tla", "RecordTrace.tla"), "7 C06"),
    "C07": ("lab", "model_checking",
            "NoGuardViolation in MCRecord (every primitive of every template under the guards InBounds / ReadOk / RefOk / WriteOk on every "
            "enumerated layout); on the real code the hooks report every call of read / write / get / get_mut (offset, type, size, alignment, "
            "address alignment) and the trace specification replays them on its own extents of the buffer.",
            "store clause bound textually (classification of RecordMaybeUninit::write); hooked builds only; same sample as C04",
            TRACE_TECH % ("Record.tla, MCRecord.tla", "RecordTrace.tla"), "7 C07"),
    "C14": ("lab", "exploration",
            "Codegen-level rule AutoSend / AutoSync (Record.tla) against a compile-time probe evaluated by rustc on every generated record "
            "type of the lab; both directions.  The decisive oracle is rustc, the specification supplies the expected answer.",
            "probe = inherent associated const shadowing a blanket trait const; lab definitions with Rc / Cell / raw pointer / guard-marker fields",
            "TLC trace validation (spec/RecordTrace.tla, TypeTags) of compile-time auto-trait probes on rustc-compiled generated modules",
            "7 C14"),
    "C15": ("lab", "model_checking",
            "Round trip through serde_json (text and Value) and bincode on every variant of every lab definition with the fragment; inputs "
            "truncated / corrupted at every position / extended; decoded values tracked by the ledger (no leak after a failed decode); "
            "encoded elements compared with the fields in declaration order.  The encoding itself is abstracted (sequence of elements).",
            "same as C04; the record-level model abstracts the encoding", TRACE_TECH % ("Record.tla", "RecordTrace.tla"), "7 C15"),
    "C16": ("lab", "model_checking",
            "clone / clone_from / a panic injected in the clone of the k-th tracked field for every k, then mutation / drop of either record "
            "and inspection of the other; previous contents of a clone-assignment target destroyed exactly once.",
            "same as C04", TRACE_TECH % ("Record.tla", "RecordTrace.tla"), "7 C16"),
    "C11": ("static", "exploration",
            "The case matrix (type x introduced first / later x perturbation of recorded size, alignment, may-be-uninitialised flag) is "
            "enumerated completely by TLC (spec/MCCompile.tla); every case is built through the real builder (add_datum_override), generated "
            "by the real generator, compiled by rustc as its own target; TLC validates the verdicts against Codegen!CompileVerdict "
            "(spec/CompileTrace.tla), each perturbed case paired with its unperturbed twin.",
            "finite matrix over the lab palette, enumerated completely; x86_64 only (foreign-target tables emulated by perturbation)",
            "TLC-enumerated case matrix (spec/Codegen.tla, MCCompile.tla) + rustc verdicts on generated modules validated by TLC (spec/CompileTrace.tla)",
            "7 C11"),
    "C17": ("types", "exploration",
            "TLC enumerates the type grammar to a fixed depth with several spellings per type (spec/TypeName.tla); the real host resolver "
            "records a name for each; rustc decides, in a module that imports nothing, whether `fn(T) -> <recorded name>` type-checks; "
            "every spelling is looked up in a real table filled with the same types; TLC validates the stream (spec/TypeTrace.tla).",
            "bounded grammar depth; rustc is the oracle of denotation, the specification supplies the terms, spellings and expected hits",
            "TLC-enumerated type terms (spec/TypeName.tla) + rustc type-equality probes + TLC validation (spec/TypeTable.tla, TypeTrace.tla)",
            "7 C17"),
}

PENDING_REASON = "check not built yet (framework under construction); see DESIGN.md section 7"


def main():
    props = [json.loads(l) for l in open(os.path.join(VERIF, "properties.jsonl"))]
    try:
        commits = subprocess.run(["git", "-C", "/repo", "log", "--format=%h %s"], stdout=subprocess.PIPE).stdout.decode().splitlines()
    except Exception:
        commits = []
    hook_commits = [c.split()[0] for c in commits if c.split(" ", 1)[1].startswith("verif-hook")]
    checks = []
    na = []
    for p in props:
        pid = p["id"]
        if pid in CHECKS:
            eng, level, text, note, tech, ref = CHECKS[pid]
            checks.append({
                "property_id": pid,
                "quick_cmd": "tools/check %s --tier quick" % pid,
                "thorough_cmd": "tools/check %s --tier thorough" % pid,
                "evidence_file": "evidence/%s.json" % pid,
                "replay_cmd_template": "tools/check %s --replay {path}" % pid,
                "engine": eng,
                "level_claimed": {"category": level, "text": text, "design_ref": "DESIGN.md section " + ref},
                "level_note": note,
                "technique": tech,
            })
        else:
            na.append({"property_id": pid, "reason": PENDING_REASON})
    m = {
        "version": 1,
        "setup_cmd": "tools/setup",
        "hooks": {
            "guard": "truc_verif",
            "enable": "harness/.cargo/config.toml sets rustflags --cfg truc_verif for every harness build of /repo's crates",
            "baseline_off_cmd": "cd /repo && cargo test --workspace --no-fail-fast --offline",
            "source_commits": hook_commits,
            "add_only": True,
        },
        "engines": [
            {"name": "builder", "path": "tools/builder_pipe.py",
             "serves_properties": ["C01", "C02", "C03", "C12", "C13", "C18", "C19", "C20"],
             "kind_free_text": "TLC model checking of spec/Builder.tla + TLC trace validation (spec/BuilderTrace.tla) of "
                               "harness/builder_driver executions"},
            {"name": "vec", "path": "tools/vec_pipe.py", "serves_properties": ["C08", "C09", "C10"],
             "kind_free_text": "TLC model checking of spec/VecConvert.tla + TLC trace validation (spec/VecTrace.tla) of "
                               "harness/vec_driver executions (debug/release with hooks, release without)"},
            {"name": "lab", "path": "tools/lab_pipe.py",
             "serves_properties": ["C03", "C04", "C05", "C06", "C07", "C13", "C14", "C15", "C16"],
             "kind_free_text": "TLC model checking of spec/MCRecord.tla + real builder / generate() / rustc on lab definitions "
                               "(harness/genlab_gen, genlab_run, genlab_compile) + TLC trace validation (spec/RecordTrace.tla)"},
            {"name": "static", "path": "tools/static_pipe.py", "serves_properties": ["C11"],
             "kind_free_text": "TLC case enumeration + rustc compile verdicts on generated modules (harness/genlab_probe) + TLC validation"},
            {"name": "types", "path": "tools/types_pipe.py", "serves_properties": ["C17", "C18"],
             "kind_free_text": "TLC term enumeration (spec/TypeName.tla) + real resolvers / tables (harness/types_lab) + rustc probes "
                               "(harness/types_probe) + TLC validation (spec/TypeTrace.tla)"},
        ],
        "checks": checks,
        "notes": "All checks share cached pipeline stages keyed by the content hash of /repo and /verif sources, tier and seed "
                 "(.cache/), so each stage runs once per tree; VERIF_NOCACHE=1 disables the cache.",
        "not_applicable": na,
    }
    with open(os.path.join(VERIF, "MANIFEST.json"), "w") as f:
        json.dump(m, f, indent=1)
    print("MANIFEST.json: %d checks, %d not applicable" % (len(checks), len(na)))


if __name__ == "__main__":
    main()
