#!/usr/bin/env python3
"""usage: tools/seed_meta.py <seeded dir> <property> <demo crate> "<needs to manifest>" "<origin>"
Applies the patch of a collected seeded change to /repo, runs the property's quick check, reverts, and
writes meta.json (the row of DESIGN 15).  /repo must be clean; nothing else may use /repo meanwhile."""
import json, os, subprocess, sys
d, prop, crate, needs, origin = sys.argv[1:6]
d = os.path.abspath(d)
if subprocess.call(["git", "-C", "/repo", "diff", "--quiet"]) != 0:
    sys.exit("/repo is dirty")
subprocess.check_call(["git", "-C", "/repo", "apply", os.path.join(d, "patch.diff")])
try:
    p = subprocess.run(["/verif/tools/check", prop, "--tier", "quick"], stdout=subprocess.PIPE,
                       stderr=subprocess.STDOUT, text=True)
finally:
    subprocess.check_call(["git", "-C", "/repo", "checkout", "--", "."])
first = next((l for l in p.stdout.splitlines() if l.startswith(("VIOLATION", "TOOL-ERROR"))), "")
with open(os.path.join(d, "check_output.txt"), "w") as f:
    f.write(p.stdout[-20000:])
meta = {"property": prop, "breaks": prop, "needs_to_manifest": needs, "demo_crate": crate,
        "confirmed": "tools/collect_seed.sh (confirm_seeded.sh in the scratch worktree): pinned suite 66 passed 0 "
                     "failed with the patch; demo fails with the patch and passes without it",
        "origin": origin,
        "detected_by": ["%s quick" % prop] if p.returncode == 1 and first.startswith("VIOLATION") else [],
        "checks_run": [{"check": "tools/check %s --tier quick" % prop, "exit": p.returncode, "first_line": first}]}
json.dump(meta, open(os.path.join(d, "meta.json"), "w"), indent=1)
print(os.path.basename(d), prop, "rc=%d" % p.returncode, first)
for l in p.stdout.splitlines():
    if l.startswith("  violation"):
        print(l[:200])
