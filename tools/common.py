"""Shared plumbing of the /verif checks: paths, content-hash stage cache, TLC runner,
cargo runner, evidence writer, known-findings filter, verdict printing.

Exit codes of a check: 0 = property held on everything explored (known findings are printed
as KNOWN-FINDING lines), 1 = violation (a `VIOLATION property=<id> replay=<path>` line was
printed), 2 = tool error / time-out (never a verdict)."""

import fcntl
import hashlib
import json
import os
import re
import shutil
import subprocess
import sys
import time

VERIF = os.path.dirname(os.path.dirname(os.path.abspath(__file__)))
REPO = os.environ.get("VERIF_REPO", "/repo")
SPEC = os.path.join(VERIF, "spec")
HARNESS = os.path.join(VERIF, "harness")
WORK = os.path.join(VERIF, ".work")
CACHE = os.path.join(VERIF, ".cache")
EVIDENCE = os.path.join(VERIF, "evidence")
REPLAYS = os.path.join(VERIF, "replays")
CORPUS = os.path.join(VERIF, "corpus")

TLC_JAR = "/opt/veriftools/tla/tla2tools.jar"


class ToolError(Exception):
    pass


def log(*a):
    print("[check]", *a, file=sys.stderr, flush=True)


def sh(cmd, cwd=None, env=None, timeout=None, check=True, stdin=None):
    """Run a command, return (rc, stdout+stderr)."""
    e = dict(os.environ)
    if env:
        e.update(env)
    try:
        p = subprocess.run(cmd, cwd=cwd, env=e, stdout=subprocess.PIPE, stderr=subprocess.STDOUT,
                           timeout=timeout, input=stdin)
    except subprocess.TimeoutExpired as ex:
        raise ToolError("timeout after %ss: %s" % (timeout, " ".join(map(str, cmd))[:200])) from ex
    out = p.stdout.decode("utf-8", "replace")
    if check and p.returncode != 0:
        raise ToolError("command failed (%d): %s\n%s" % (p.returncode, " ".join(map(str, cmd))[:300], out[-4000:]))
    return p.returncode, out


# ----------------------------------------------------------------------------- hashing / cache

def _hash_tree(h, root, subdirs, skip_dirs=("target", ".git", ".work", ".cache", "evidence", "replays",
                                            "__pycache__", "states", "seeded", "gen")):
    for sub in subdirs:
        top = os.path.join(root, sub)
        if os.path.isfile(top):
            h.update(sub.encode())
            with open(top, "rb") as f:
                h.update(hashlib.sha256(f.read()).digest())
            continue
        for dp, dn, fn in os.walk(top):
            dn[:] = sorted(d for d in dn if d not in skip_dirs)
            for f in sorted(fn):
                p = os.path.join(dp, f)
                if os.path.islink(p) or not os.path.isfile(p):
                    continue
                h.update(os.path.relpath(p, root).encode())
                with open(p, "rb") as fh:
                    h.update(hashlib.sha256(fh.read()).digest())


_repo_hash = None


def repo_hash():
    """Content hash of /repo's working tree (sources only) - the cache key's main part, so a
    cached stage is reused only for byte-identical sources."""
    global _repo_hash
    if _repo_hash is None:
        h = hashlib.sha256()
        _hash_tree(h, REPO, ["truc", "truc_runtime", "examples", "internal", "Cargo.toml", "Cargo.lock"])
        _repo_hash = h.hexdigest()[:20]
    return _repo_hash


_verif_hash = None


def verif_hash():
    global _verif_hash
    if _verif_hash is None:
        h = hashlib.sha256()
        _hash_tree(h, VERIF, ["spec", "harness", "tools", "corpus", "known_findings.jsonl"])
        _verif_hash = h.hexdigest()[:20]
    return _verif_hash


class Stage:
    """A cached pipeline stage.  The key is (name, tier, seed, /repo content hash, /verif content
    hash): the stage is recomputed whenever a source file of either tree changes."""

    def __init__(self, name, tier, seed):
        self.name = name
        self.key = "%s-%s-%s-%s-%s" % (name, tier, seed, repo_hash(), verif_hash())
        self.dir = os.path.join(CACHE, self.key)
        self.result = os.path.join(self.dir, "result.json")

    def run(self, fn):
        os.makedirs(CACHE, exist_ok=True)
        lockp = os.path.join(CACHE, self.name + ".lock")
        with open(lockp, "w") as lf:
            fcntl.flock(lf, fcntl.LOCK_EX)
            if os.environ.get("VERIF_NOCACHE") != "1" and os.path.exists(self.result):
                with open(self.result) as f:
                    r = json.load(f)
                r["_cached"] = True
                return r
            if os.path.isdir(self.dir):
                shutil.rmtree(self.dir)
            os.makedirs(self.dir)
            t0 = time.time()
            r = fn(self.dir)
            r["wall_s"] = round(time.time() - t0, 2)
            if r.get("unavailable"):
                # a stage that could not run here is not worth remembering: try again next time
                shutil.rmtree(self.dir, ignore_errors=True)
                r["_cached"] = False
                return r
            with open(self.result + ".tmp", "w") as f:
                json.dump(r, f)
            os.replace(self.result + ".tmp", self.result)
            prune_cache()
            r["_cached"] = False
            return r


def prune_cache(keep=14):
    try:
        ents = [(os.path.getmtime(os.path.join(CACHE, d)), d) for d in os.listdir(CACHE)
                if os.path.isdir(os.path.join(CACHE, d))]
        ents.sort(reverse=True)
        for _, d in ents[keep:]:
            shutil.rmtree(os.path.join(CACHE, d), ignore_errors=True)
    except OSError:
        pass


# ----------------------------------------------------------------------------- cargo

def cargo_build(packages, release=False, extra_env=None, timeout=1800):
    cmd = ["cargo", "build", "--offline"]
    for p in packages:
        cmd += ["-p", p]
    if release:
        cmd.append("--release")
    env = {"CARGO_NET_OFFLINE": "true"}
    if extra_env:
        env.update(extra_env)
    rc, out = sh(cmd, cwd=HARNESS, env=env, timeout=timeout, check=False)
    if rc != 0:
        raise ToolError("harness build failed:\n" + out[-6000:])
    return os.path.join(HARNESS, "target", "release" if release else "debug")


# ----------------------------------------------------------------------------- TLC

_tlc_counter = [0]


def run_tlc(module, cfg, workers=1, env=None, timeout=3600, coverage=False, simulate=None, depth=None,
            heap="4g", dfs=False, extra=None):
    """Runs TLC on spec/<module>.tla with spec/<cfg>; returns dict(out, states, distinct, depth,
    ok, violated, actions)."""
    _tlc_counter[0] += 1
    meta = os.path.join(WORK, "tlc-%d-%d" % (os.getpid(), _tlc_counter[0]))
    os.makedirs(WORK, exist_ok=True)
    jopts = "-Xss64m"
    if dfs:     # trace validation: deep recursion while reading the trace, depth-first queue
        jopts = "-Xss1g -Dtlc2.tool.queue.IStateQueue=StateDeque"
    cmd = ["tlc"]
    e = {"JAVA_TOOL_OPTIONS": jopts + " -Xmx" + heap}
    if env:
        e.update(env)
    cmd += ["-workers", str(workers), "-metadir", meta, "-cleanup", "-noGenerateSpecTE"]
    if coverage:
        cmd += ["-coverage", "1"]
    if simulate:
        cmd += ["-simulate", "num=%d" % simulate]
    if depth:
        cmd += ["-depth", str(depth)]
    if extra:
        cmd += extra
    cmd += ["-config", cfg, module + ".tla"]
    t0 = time.time()
    try:
        rc, out = sh(cmd, cwd=SPEC, env=e, timeout=timeout, check=False)
    finally:
        shutil.rmtree(meta, ignore_errors=True)
    r = {"out": out, "rc": rc, "wall_s": round(time.time() - t0, 2)}
    m = re.search(r"(\d+) states generated, (\d+) distinct states found", out)
    r["states"] = int(m.group(1)) if m else 0
    r["distinct"] = int(m.group(2)) if m else 0
    m = re.search(r"The depth of the complete state graph search is (\d+)", out)
    r["depth"] = int(m.group(1)) if m else 0
    r["violated"] = re.findall(r"Error: (?:Invariant|Action property|Temporal properties?) ?(\S+)? (?:is|were) violated", out)
    r["ok"] = ("Model checking completed. No error has been found." in out) or \
              (simulate is not None and "Error:" not in out)
    if "Parsing or semantic analysis failed" in out or "TLC threw an unexpected exception" in out:
        i = out.find("Error:")
        raise ToolError("TLC failed on %s/%s:\n%s" % (module, cfg, out[max(0, i - 300):i + 4000]))
    return r


def tlc_action_counts(out):
    """-coverage 1 output: per top-level action, number of times taken (distinct:total)."""
    acts = {}
    for m in re.finditer(r"^<(\w+) line (\d+), col \d+ to line \d+, col \d+ of module (\w+)>: (\d+):(\d+)", out, re.M):
        acts["%s@%s:%s" % (m.group(1), m.group(3), m.group(2))] = [int(m.group(4)), int(m.group(5))]
    return acts


# ----------------------------------------------------------------------------- findings

def load_findings():
    p = os.path.join(VERIF, "known_findings.jsonl")
    res = []
    if os.path.exists(p):
        with open(p) as f:
            for line in f:
                line = line.strip()
                if line.startswith("{"):
                    res.append(json.loads(line))
    return res


def match_finding(prop, viol, findings):
    """viol: dict with at least 'tag'.  A finding matches when status == 'known', the property
    is the same and every key of its `match` dict equals (or, for lists, contains) the
    violation's value.  `fixed` entries never suppress anything."""
    for f in findings:
        if f.get("status") != "known" or f.get("property") != prop:
            continue
        ok = True
        for k, v in f.get("match", {}).items():
            x = viol.get(k)
            if isinstance(v, list):
                if x not in v:
                    ok = False
            elif x != v:
                ok = False
        if ok:
            return f
    return None


# ----------------------------------------------------------------------------- evidence

def write_evidence(prop, tier, seed, level, coverage, wall_s, violations, assumptions=None, extra=None):
    os.makedirs(EVIDENCE, exist_ok=True)
    ev = {"property_id": prop, "tier": tier, "seed": int(seed), "level": level, "coverage": coverage,
          "wall_s": round(float(wall_s), 2), "violations": int(violations),
          "assumptions": assumptions or []}
    if extra:
        ev.update(extra)
    p = os.path.join(EVIDENCE, prop + ".json")
    with open(p + ".tmp", "w") as f:
        json.dump(ev, f, indent=1, sort_keys=True)
    os.replace(p + ".tmp", p)
    return p


def write_replay(prop, payload):
    os.makedirs(REPLAYS, exist_ok=True)
    blob = json.dumps(payload, sort_keys=True)
    name = "%s-%s.json" % (prop, hashlib.sha256(blob.encode()).hexdigest()[:12])
    p = os.path.join(REPLAYS, name)
    with open(p, "w") as f:
        json.dump(payload, f, indent=1, sort_keys=True)
    return p


def finish(prop, violations, known, replay_of):
    """Prints KNOWN-FINDING / VIOLATION lines and returns the exit code.
    violations: list of dicts (unmatched); known: list of (finding, viol)."""
    seen = set()
    for f, v in known:
        key = f.get("id") or json.dumps(f.get("match"), sort_keys=True)
        if key in seen:
            continue
        seen.add(key)
        print("KNOWN-FINDING: property=%s %s" % (prop, f.get("what", key)))
    if violations:
        paths = []
        for v in violations[:5]:
            paths.append(replay_of(v))
        for p in paths[:1]:
            print("VIOLATION property=%s replay=%s" % (prop, p))
        for v in violations[:10]:
            print("  violation: %s" % json.dumps({k: v[k] for k in v if k not in ("history", "trace")})[:400])
        sys.stdout.flush()
        return 1
    return 0
