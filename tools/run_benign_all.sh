#!/bin/sh
# usage: run_benign_all.sh [dir...]   every benign change (benign/*) against all 20 quick checks; any rc != 0 is a false alarm
cd /verif
DIRS="$@"; [ -z "$DIRS" ] && DIRS=$(ls -d benign/*/)
for d in $DIRS; do
  tools/run_seeded.sh $d C01 C02 C03 C04 C05 C06 C07 C08 C09 C10 C11 C12 C13 C14 C15 C16 C17 C18 C19 C20
done
