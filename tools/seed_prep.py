#!/usr/bin/env python3
"""Prepares the scratch worktree and the prompt of ONE independent sub-agent that is asked for a
seeded change (DESIGN 15).  The agent gets the text of one property and its own worktree under
/tmp/mut - nothing from /verif.

usage: tools/seed_prep.py <ID> <property> [--benign] "<hint (note d)>"
   ID        name of the worktree (/tmp/mut/<ID>) and of the result directory (/tmp/mut/<ID>-out)
   --benign  ask for a behaviour change that does NOT break the property (false-alarm hunt)
Afterwards: tools/confirm_seeded.sh, copy the result to seeded/<name>/, `git -C /repo worktree
remove --force /tmp/mut/<ID>`."""
import json
import os
import subprocess
import sys

V = os.path.dirname(os.path.dirname(os.path.abspath(__file__)))
MUT = "/tmp/mut"

VIOLATING = """You are helping to evaluate a verification framework by producing a realistic, subtle defect ("seeded change") in the Rust project arnodb/truc (a build-time code generator for fixed-size evolving records with packed byte layouts + a small unsafe runtime).

Your scratch git worktree of the project is at: /tmp/mut/@ID@   (work ONLY there; never touch /repo or /verif; do not read /verif).
Write your results into: /tmp/mut/@ID@-out/

The property your change must break (this text is all you get about what is being verified):
----
@PROP@
----

Task: make ONE small source change to the project (library code under truc/src or truc_runtime/src, not tests, not examples) that
 (1) still compiles,
 (2) still passes the whole existing test suite: run `cd /tmp/mut/@ID@ && CARGO_TARGET_DIR=/tmp/mut/@ID@/target cargo test --workspace --offline` (network is unavailable; always pass --offline) and confirm 0 failures,
 (3) breaks the property above, and
 (4) needs something SPECIFIC to manifest: e.g. a multi-step sequence of operations, a particular/unusual input shape (zero-size or odd-size data, third variant, a particular strategy mixture, a specific failure position...), or two cooperating sites that each look fine alone. It must NOT be something ordinary use or the happy path would expose at once, and it should look like a plausible refactoring slip or "optimisation", not sabotage.

Deliverables in /tmp/mut/@ID@-out/ :
 - patch.diff : output of `git -C /tmp/mut/@ID@ diff` (source change only, no demonstration files in it)
 - a demonstration that FAILS with the change and PASSES without it: preferably a standalone Rust integration test file `demo.rs` that can be dropped into /tmp/mut/@ID@/truc/tests/demo.rs (or truc_runtime/tests/demo.rs) and run with `cargo test --offline --test demo`; say which crate it belongs to. Verify both directions yourself (with the patch applied: demo fails; with the patch reverted: demo passes).
 - notes.md : which property clause is broken, what exactly is needed for it to manifest, the commands you ran and their outcomes.

Notes: (a) the source contains a few lines guarded by `#[cfg(truc_verif)]` (instrumentation hooks, inactive in normal builds): leave them alone and do not rely on them. (b) If the property is about the Rust code that truc GENERATES, your change must keep the generated text identical for the three fixed definitions the unit tests compare (run the suite!); a convincing demonstration generates a module with the real generator, compiles it (e.g. `rustc` against the built truc_runtime rlib, or a small cargo project under /tmp/mut/@ID@-out with path dependencies, offline; crates available offline: static_assertions, serde, serde_json, bincode) and runs it. (c) Do NOT use `git stash` (the stash is shared between worktrees): to test without your change use `git diff > /tmp/mut/@ID@-out/patch.diff; git apply -R ...; ...; git apply ...`. (d) @HINT@

Read the code first (truc/src/record/definition/**, truc/src/generator/**, truc_runtime/src/**) and pick a change in the code that implements the property. Keep the change small (a few lines). When done, leave the worktree with the patch APPLIED and the demo file NOT inside the worktree's tracked dirs (only in the -out dir), and remove the target directory /tmp/mut/@ID@/target to save disk space. Report briefly what you changed.
"""

BENIGN = """You are helping to evaluate a verification framework for the Rust project arnodb/truc (a build-time code generator for fixed-size evolving records with packed byte layouts + a small unsafe runtime).  The framework must never raise an alarm on code where the property it checks still holds.  Your job is to produce a BENIGN change: one that visibly changes how the project behaves internally, but does NOT break the property below - the kind of change an over-fitted or brittle checker would wrongly flag.

Your scratch git worktree of the project is at: /tmp/mut/@ID@   (work ONLY there; never touch /repo or /verif; do not read /verif).
Write your results into: /tmp/mut/@ID@-out/

The property that must KEEP holding (this text is all you get about what is being verified):
----
@PROP@
----

Task: make ONE source change to the project (library code under truc/src or truc_runtime/src, not tests, not examples) that
 (1) still compiles,
 (2) still passes the whole existing test suite: run `cd /tmp/mut/@ID@ && CARGO_TARGET_DIR=/tmp/mut/@ID@/target cargo test --workspace --offline` (network is unavailable; always pass --offline) and confirm 0 failures,
 (3) changes observable-but-unspecified behaviour in the code that implements the property: e.g. which of several valid results is chosen, the order in which independent things happen, the data structure used, the exact wording of messages, the text of generated code for shapes the tests do not pin, the primitive used to reach the same effect - for at least some inputs the result must really differ from before,
 (4) keeps the property above true for EVERY input in its quantifier, and keeps every documented/public behaviour a user could reasonably rely on (public API signatures unchanged; nothing that is valid today becomes rejected, nothing rejected today becomes accepted).  Be careful and conservative here: if you are not sure the property still holds, choose another change.

Deliverables in /tmp/mut/@ID@-out/ :
 - patch.diff : output of `git -C /tmp/mut/@ID@ diff` (source change only)
 - notes.md : what changes observably (with one concrete input where the result differs from before), and your argument why the property still holds for every input; the commands you ran and their outcomes.
 - if practical, a small test `demo.rs` (integration test for truc/tests or truc_runtime/tests) that shows the behavioural difference (passes only WITH the change), and say which crate it belongs to.

Notes: (a) the source contains a few lines guarded by `#[cfg(truc_verif)]` (instrumentation hooks, inactive in normal builds): keep every one of them, attached to the same logical step as before (if you move or restructure a step, move its hook with it and keep its arguments meaningful). (b) If you change the Rust code that truc GENERATES, the generated text must stay identical for the three fixed definitions the unit tests compare (run the suite!) and the public API of the generated types must stay the same. (c) Do NOT use `git stash` (the stash is shared between worktrees). (d) @HINT@

Read the code first (truc/src/record/definition/**, truc/src/generator/**, truc_runtime/src/**). When done, leave the worktree with the patch APPLIED, and remove the target directory /tmp/mut/@ID@/target to save disk space. Report briefly what you changed.
"""


def main():
    args = [a for a in sys.argv[1:] if a != "--benign"]
    benign = "--benign" in sys.argv
    ident, prop, hint = args[0], args[1], args[2]
    p = next(json.loads(x) for x in open(os.path.join(V, "properties.jsonl")) if json.loads(x)["id"] == prop)
    q = p["quantifier"]["text"] if isinstance(p["quantifier"], dict) else p["quantifier"]
    text = "Property %s: %s\n\nStatement: %s\n\nQuantifier: %s\n" % (prop, p["title"], p["statement"], q)
    os.makedirs(MUT, exist_ok=True)
    wt = os.path.join(MUT, ident)
    subprocess.check_call(["git", "-C", "/repo", "worktree", "add", "--detach", "-q", wt])
    os.makedirs(wt + "-out", exist_ok=True)
    body = (BENIGN if benign else VIOLATING).replace("@ID@", ident).replace("@PROP@", text).replace("@HINT@", hint)
    with open(wt + "-prompt.txt", "w") as f:
        f.write(body)
    print(wt + "-prompt.txt")


if __name__ == "__main__":
    main()
