//! Type-name / type-table lab (C17, C18).
//! usage: types_lab <terms.ndjson> <trace.ndjson>
//! terms.ndjson: one JSON per enumerated type term: {"id", "short", "qualified", "mixed", "mixed2"};
//! the types themselves are spelled in src/gen/types.rs (generated from the same terms).
use std::{
    collections::BTreeMap,
    fs::File,
    io::{BufRead, BufReader, BufWriter, Write},
    panic::{catch_unwind, AssertUnwindSafe},
};

use serde_json::{json, Value};
use truc::record::{
    definition::builder::native::NativeRecordDefinitionBuilder,
    type_resolver::{DynamicTypeInfo, HostTypeResolver, StaticTypeResolver, TypeResolver},
};

#[path = "gen/types.rs"]
mod types;

pub trait Visitor {
    fn visit<T: 'static>(&mut self, id: usize);
}

struct Out(BufWriter<File>);
impl Out {
    fn ev(&mut self, v: Value) {
        serde_json::to_writer(&mut self.0, &v).unwrap();
        self.0.write_all(b"\n").unwrap();
    }
}

struct PassRegister<'a> {
    out: &'a mut Out,
    table: &'a mut StaticTypeResolver,
    compiler: &'a mut BTreeMap<usize, String>,
}
impl<'a> Visitor for PassRegister<'a> {
    fn visit<T: 'static>(&mut self, id: usize) {
        let host = HostTypeResolver.type_info::<T>();
        let compiler = std::any::type_name::<T>();
        self.compiler.insert(id, compiler.to_owned());
        self.out.ev(json!({"ev":"type","id":id,"recorded":host.name,"compiler":compiler,
            "size":host.size,"align":host.align}));
        let r = catch_unwind(AssertUnwindSafe(|| self.table.add_type::<T>()));
        self.out.ev(json!({"ev":"register","id":id,"res": if r.is_ok() {"ok"} else {"panic"}}));
        if id % 97 == 1 {
            // a second registration of the same type must be rejected
            let r = catch_unwind(AssertUnwindSafe(|| self.table.add_type::<T>()));
            self.out.ev(json!({"ev":"register","id":id,"res": if r.is_ok() {"ok"} else {"panic"}}));
        }
    }
}

struct PassLookup<'a> {
    out: &'a mut Out,
    table: &'a StaticTypeResolver,
    spellings: &'a BTreeMap<usize, Vec<(String, String)>>,
    phase: &'static str,
}
impl<'a> Visitor for PassLookup<'a> {
    fn visit<T: 'static>(&mut self, id: usize) {
        let r = catch_unwind(AssertUnwindSafe(|| self.table.type_info::<T>()));
        match r {
            Ok(i) => self.out.ev(json!({"ev":"lookup","phase":self.phase,"kind":"typed","style":"","id":id,
                "hit":true,"size":i.size,"align":i.align,"uninit":false,"name":i.name})),
            Err(_) => self.out.ev(json!({"ev":"lookup","phase":self.phase,"kind":"typed","style":"","id":id,
                "hit":false,"size":0,"align":0,"uninit":false,"name":""})),
        }
        for (style, sp) in self.spellings.get(&id).map(|v| v.as_slice()).unwrap_or(&[]) {
            let r = catch_unwind(AssertUnwindSafe(|| self.table.dynamic_type_info(sp)));
            match r {
                Ok(i) => self.out.ev(json!({"ev":"lookup","phase":self.phase,"kind":"dynamic","style":style,"id":id,
                    "hit":true,"size":i.info.size,"align":i.info.align,"uninit":i.allow_uninit,"name":i.info.name})),
                Err(_) => self.out.ev(json!({"ev":"lookup","phase":self.phase,"kind":"dynamic","style":style,"id":id,
                    "hit":false,"size":0,"align":0,"uninit":false,"name":""})),
            }
        }
    }
}

/// layout under a table: the datum's recorded type information must be the table's answer
struct PassBuilder<'a> {
    out: &'a mut Out,
    table: &'a StaticTypeResolver,
}
impl<'a> Visitor for PassBuilder<'a> {
    fn visit<T: 'static>(&mut self, id: usize) {
        if id % 7 != 0 {
            return;
        }
        let r = catch_unwind(AssertUnwindSafe(|| {
            let mut b = NativeRecordDefinitionBuilder::new(self.table);
            // a first datum of the same type (any other type might not be in a sampled table)
            b.add_datum::<T, _>("pad").unwrap();
            let d = b.add_datum::<T, _>("target").unwrap();
            b.close_record_variant();
            let def = b.build();
            let dd = &def[d];
            (dd.details().size(), dd.details().type_align(), dd.details().offset())
        }));
        match r {
            Ok((s, a, o)) => self.out.ev(json!({"ev":"lookup","phase":"doctored","kind":"builder","style":"","id":id,
                "hit":true,"size":s,"align":a,"uninit":false,"name":"","off":o})),
            Err(_) => self.out.ev(json!({"ev":"lookup","phase":"doctored","kind":"builder","style":"","id":id,
                "hit":false,"size":0,"align":0,"uninit":false,"name":"","off":0})),
        }
    }
}

fn reload(t: &StaticTypeResolver) -> (StaticTypeResolver, usize) {
    let json = t.to_json_string().expect("json");
    let map: BTreeMap<String, DynamicTypeInfo> = serde_json::from_str(&json).expect("from json");
    let n = map.len();
    (StaticTypeResolver::from(map), n)
}

fn doctored(t: &StaticTypeResolver) -> StaticTypeResolver {
    let json = t.to_json_string().expect("json");
    let mut map: BTreeMap<String, DynamicTypeInfo> = serde_json::from_str(&json).expect("from json");
    for (_, v) in map.iter_mut() {
        // a foreign-target-like table: other sizes and alignments than the host's
        v.info.size += 8;
        v.info.align *= 2;
        v.allow_uninit = !v.allow_uninit;
    }
    StaticTypeResolver::from(map)
}

// the set registered by StaticTypeResolver::add_std_types, spelled again to look it up typed
macro_rules! std_one {
    ($v:ident, $t:ty) => {
        $v.visit_std::<$t>();
        $v.visit_std::<Option<$t>>();
    };
}
macro_rules! std_arr {
    ($v:ident, $t:ty) => {
        std_one!($v, $t); std_one!($v, [$t; 1]); std_one!($v, [$t; 2]); std_one!($v, [$t; 3]); std_one!($v, [$t; 4]);
        std_one!($v, [$t; 5]); std_one!($v, [$t; 6]); std_one!($v, [$t; 7]); std_one!($v, [$t; 8]); std_one!($v, [$t; 9]);
        std_one!($v, [$t; 10]);
    };
}
struct StdPass<'a> {
    out: &'a mut Out,
    table: &'a StaticTypeResolver,
    phase: &'static str,
    n: usize,
}
impl<'a> StdPass<'a> {
    fn visit_std<T: 'static>(&mut self) {
        self.n += 1;
        let host = HostTypeResolver.type_info::<T>();
        let r = catch_unwind(AssertUnwindSafe(|| self.table.type_info::<T>()));
        let d = catch_unwind(AssertUnwindSafe(|| self.table.dynamic_type_info(std::any::type_name::<T>())));
        let (hit, s, a) = r.map(|i| (true, i.size, i.align)).unwrap_or((false, 0, 0));
        let (dhit, ds, da) = d.map(|i| (true, i.info.size, i.info.align)).unwrap_or((false, 0, 0));
        self.out.ev(json!({"ev":"std","phase":self.phase,"n":self.n,"name":host.name,"hsize":host.size,"halign":host.align,
            "hit":hit,"tsize":s,"talign":a,"dhit":dhit,"dsize":ds,"dalign":da}));
    }
    fn all(&mut self) {
        std_arr!(self, u8); std_arr!(self, u16); std_arr!(self, u32); std_arr!(self, u64); std_arr!(self, u128);
        std_arr!(self, usize); std_arr!(self, i8); std_arr!(self, i16); std_arr!(self, i32); std_arr!(self, i64);
        std_arr!(self, i128); std_arr!(self, isize); std_arr!(self, f32); std_arr!(self, f64); std_arr!(self, char);
        std_arr!(self, bool); std_arr!(self, String); std_arr!(self, Box<str>); std_arr!(self, Vec<()>);
    }
}

fn main() {
    let args: Vec<String> = std::env::args().collect();
    std::panic::set_hook(Box::new(|_| {}));
    let mut spellings: BTreeMap<usize, Vec<(String, String)>> = BTreeMap::new();
    for line in BufReader::new(File::open(&args[1]).expect("terms")).lines() {
        let line = line.unwrap();
        if line.trim().is_empty() {
            continue;
        }
        let t: Value = serde_json::from_str(&line).unwrap();
        let id = t["id"].as_u64().unwrap() as usize;
        let mut v = Vec::new();
        for k in ["short", "qualified", "mixed", "mixed2"] {
            v.push((k.to_owned(), t[k].as_str().unwrap().to_owned()));
        }
        spellings.insert(id, v);
    }
    let mut out = Out(BufWriter::new(File::create(&args[2]).expect("trace")));
    let mut table = StaticTypeResolver::new();
    let mut compiler = BTreeMap::new();
    types::all(&mut PassRegister { out: &mut out, table: &mut table, compiler: &mut compiler });
    for (id, c) in &compiler {
        spellings.entry(*id).or_default().push(("compiler".to_owned(), c.clone()));
        spellings.entry(*id).or_default().push(("compiler_spaced".to_owned(), c.replace('<', " < ").replace(',', " ,")));
        // every token separated, the way TokenStream::to_string() prints a type
        let tokens = c.replace("::", " :: ").replace('<', " < ").replace('>', " > ").replace(',', " , ");
        spellings.entry(*id).or_default().push(("compiler_tokens".to_owned(), tokens));
        spellings.entry(*id).or_default().push(("compiler_path_spaced".to_owned(), c.replace("::", " ::")));
    }
    types::all(&mut PassLookup { out: &mut out, table: &table, spellings: &spellings, phase: "registered" });
    let (table2, n) = reload(&table);
    out.ev(json!({"ev":"reload","entries":n}));
    types::all(&mut PassLookup { out: &mut out, table: &table2, spellings: &spellings, phase: "reloaded" });
    let table3 = doctored(&table);
    out.ev(json!({"ev":"doctor"}));
    types::all(&mut PassLookup { out: &mut out, table: &table3, spellings: &spellings, phase: "doctored" });
    types::all(&mut PassBuilder { out: &mut out, table: &table3 });
    // the standard table
    let mut stdt = StaticTypeResolver::new();
    stdt.add_all_types();
    StdPass { out: &mut out, table: &stdt, phase: "std", n: 0 }.all();
    let (stdt2, _) = reload(&stdt);
    StdPass { out: &mut out, table: &stdt2, phase: "std-reloaded", n: 0 }.all();
    let stdt3 = doctored(&stdt);
    StdPass { out: &mut out, table: &stdt3, phase: "std-doctored", n: 0 }.all();
    out.0.flush().unwrap();
}
