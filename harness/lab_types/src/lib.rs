//! Palette of instrumented field types for the generated-code lab, the value ledger events and
//! the event sink shared with the runtime hooks.
//!
//! Every value of a *tracked* type carries a serial number; creation (`make`), cloning and
//! destruction are logged.  Plain `Copy` types are untracked (serial 0): only their payload can
//! be compared.

use std::{cell::Cell, cell::RefCell, marker::PhantomData, rc::Rc};

use serde::{Deserialize, Deserializer, Serialize, Serializer};

// ------------------------------------------------------------------------------- sink

thread_local! {
    static OWN_SINK: RefCell<Vec<String>> = RefCell::new(Vec::new());
    static OWN_FILE: RefCell<Option<std::fs::File>> = RefCell::new(None);
    static NEXT_SERIAL: Cell<u32> = Cell::new(1);
    static CLONE_PANIC_IN: Cell<i64> = Cell::new(-1);
    static QUIET: Cell<bool> = Cell::new(false);
}

/// Events go to `path`, written immediately (the driver may be killed by a non-unwinding panic).
pub fn install_file(path: &str) {
    #[cfg(truc_verif)]
    truc_runtime::verif::install_file(path);
    #[cfg(not(truc_verif))]
    {
        let f = std::fs::OpenOptions::new()
            .create(true)
            .append(true)
            .open(path)
            .expect("sink file");
        OWN_FILE.with(|s| *s.borrow_mut() = Some(f));
    }
}

pub fn ev(line: String) {
    #[cfg(truc_verif)]
    truc_runtime::verif::emit(line);
    #[cfg(not(truc_verif))]
    {
        use std::io::Write;
        OWN_FILE.with(|s| {
            if let Some(f) = s.borrow_mut().as_mut() {
                let _ = f.write_all(line.as_bytes());
                let _ = f.write_all(b"\n");
            } else {
                OWN_SINK.with(|v| v.borrow_mut().push(line));
            }
        });
    }
}

pub fn hooks_on() -> bool {
    cfg!(truc_verif)
}

pub fn reset_serials() {
    NEXT_SERIAL.with(|n| n.set(1));
    CLONE_PANIC_IN.with(|c| c.set(-1));
}

fn fresh() -> u32 {
    NEXT_SERIAL.with(|n| {
        let v = n.get();
        n.set(v + 1);
        v
    })
}

/// The `k`-th clone of a tracked value from now panics (k = 1: the next one).
pub fn arm_clone_panic(k: i64) {
    CLONE_PANIC_IN.with(|c| c.set(k));
}

fn clone_gate() {
    CLONE_PANIC_IN.with(|c| {
        let v = c.get();
        if v > 0 {
            c.set(v - 1);
            if v == 1 {
                c.set(-1);
                std::panic::panic_any("injected clone panic");
            }
        }
    });
}

/// Sentinel payload that `Deserialize` refuses ("undecodable element").
pub const UNDECODABLE: u32 = 0xDEAD;

pub trait LabVal: Sized {
    const KEY: &'static str;
    const TRACKED: bool;
    fn make(payload: u32) -> Self;
    fn payload(&self) -> u32;
    fn serial(&self) -> u32;
    fn touch(&mut self);
}

fn log_make(key: &str, serial: u32, payload: u32) {
    ev(format!(
        "{{\"ev\":\"make\",\"serial\":{},\"key\":\"{}\",\"payload\":{}}}",
        serial, key, payload
    ));
}

fn de_payload<'de, D: Deserializer<'de>>(d: D) -> Result<u32, D::Error> {
    let p = u32::deserialize(d)?;
    if p == UNDECODABLE {
        return Err(serde::de::Error::custom("undecodable element"));
    }
    Ok(p)
}

// ------------------------------------------------------------------------------- plain Copy types

macro_rules! plain {
    ($name:ident, $key:literal, $inner:ty, $mk:expr, $get:expr, $touch:expr $(, $attr:meta)?) => {
        $(#[$attr])?
        #[derive(Clone, Copy, Debug, PartialEq, Default)]
        pub struct $name(pub $inner);
        impl LabVal for $name {
            const KEY: &'static str = $key;
            const TRACKED: bool = false;
            fn make(payload: u32) -> Self {
                $name(($mk)(payload))
            }
            fn payload(&self) -> u32 {
                ($get)(&self.0)
            }
            fn serial(&self) -> u32 {
                0
            }
            fn touch(&mut self) {
                ($touch)(&mut self.0)
            }
        }
        impl Serialize for $name {
            fn serialize<S: Serializer>(&self, s: S) -> Result<S::Ok, S::Error> {
                self.payload().serialize(s)
            }
        }
        impl<'de> Deserialize<'de> for $name {
            fn deserialize<D: Deserializer<'de>>(d: D) -> Result<Self, D::Error> {
                Ok(Self::make(de_payload(d)?))
            }
        }
    };
}

plain!(P1, "P1", u8, |p: u32| (p % 251) as u8, |v: &u8| *v as u32, |v: &mut u8| *v = (*v + 1) % 251);
plain!(P2, "P2", u16, |p: u32| (p % 65521) as u16, |v: &u16| *v as u32, |v: &mut u16| *v = (*v + 1) % 65521);
plain!(P4, "P4", u32, |p: u32| p, |v: &u32| *v, |v: &mut u32| *v += 1);
plain!(P8, "P8", u64, |p: u32| ((p as u64) << 32) | p as u64, |v: &u64| *v as u32, |v: &mut u64| *v = (((*v as u32 + 1) as u64) << 32) | (*v as u32 + 1) as u64);
plain!(P16, "P16", u128, |p: u32| ((p as u128) << 96) | p as u128, |v: &u128| *v as u32, |v: &mut u128| *v += 1);
plain!(Odd3, "Odd3", [u8; 3], |p: u32| [(p % 251) as u8, 0xA5, (p % 251) as u8], |v: &[u8; 3]| if v[0] == v[2] && v[1] == 0xA5 { v[0] as u32 } else { 999_999 }, |v: &mut [u8; 3]| { v[0] = (v[0] + 1) % 251; v[2] = v[0]; });
plain!(Odd12, "Odd12", [u32; 3], |p: u32| [p, !p, p], |v: &[u32; 3]| if v[0] == v[2] && v[1] == !v[0] { v[0] } else { 999_999 }, |v: &mut [u32; 3]| { v[0] += 1; v[1] = !v[0]; v[2] = v[0]; });
plain!(Odd24, "Odd24", [u64; 3], |p: u32| [p as u64, !(p as u64), p as u64], |v: &[u64; 3]| if v[0] == v[2] && v[1] == !v[0] { v[0] as u32 } else { 999_999 }, |v: &mut [u64; 3]| { v[0] += 1; v[1] = !v[0]; v[2] = v[0]; });
plain!(Over16, "Over16", u64, |p: u32| p as u64, |v: &u64| *v as u32, |v: &mut u64| *v += 1, repr(align(16)));
plain!(Zst, "Zst", (), |_p: u32| (), |_v: &()| 0, |_v: &mut ()| ());
plain!(ZstA8, "ZstA8", [u64; 0], |_p: u32| [], |_v: &[u64; 0]| 0, |_v: &mut [u64; 0]| ());

/// `Option<lab_types::P4>`: a field type whose recorded name starts with `Option <` (always `Some`
/// when made by the lab; a `None` read back shows as payload 999_998).
pub type OptP4 = Option<P4>;
impl LabVal for Option<P4> {
    const KEY: &'static str = "OptP4";
    const TRACKED: bool = false;
    fn make(payload: u32) -> Self {
        Some(P4::make(payload))
    }
    fn payload(&self) -> u32 {
        self.as_ref().map_or(999_998, |v| v.payload())
    }
    fn serial(&self) -> u32 {
        0
    }
    fn touch(&mut self) {
        if let Some(v) = self {
            v.touch()
        }
    }
}

// ------------------------------------------------------------------------------- tracked types

macro_rules! tracked {
    ($name:ident, $key:literal, $body:ty, $mkbody:expr) => {
        #[derive(Debug)]
        pub struct $name {
            serial: u32,
            payload: u32,
            #[allow(dead_code)]
            body: $body,
        }
        tracked!(@impls [] $name, $key, $mkbody);
    };
    // a generic tracked type: its NAME mentions the type argument, its auto traits need not
    ($name:ident < $t:ident >, $key:literal, $body:ty, $mkbody:expr) => {
        #[derive(Debug)]
        pub struct $name<$t> {
            serial: u32,
            payload: u32,
            #[allow(dead_code)]
            body: $body,
        }
        tracked!(@impls [$t] $name<$t>, $key, $mkbody);
    };
    (@impls [$($g:ident)?] $name:ty, $key:literal, $mkbody:expr) => {
        impl$(<$g>)? LabVal for $name {
            const KEY: &'static str = $key;
            const TRACKED: bool = true;
            fn make(payload: u32) -> Self {
                let serial = fresh();
                log_make($key, serial, payload);
                Self {
                    serial,
                    payload,
                    body: ($mkbody)(payload),
                }
            }
            fn payload(&self) -> u32 {
                self.payload
            }
            fn serial(&self) -> u32 {
                self.serial
            }
            fn touch(&mut self) {
                self.payload += 1;
            }
        }
        impl$(<$g>)? Drop for $name {
            fn drop(&mut self) {
                ev(format!("{{\"ev\":\"destroy\",\"serial\":{},\"key\":\"{}\"}}", self.serial, $key));
            }
        }
        impl$(<$g>)? Clone for $name {
            fn clone(&self) -> Self {
                clone_gate();
                let serial = fresh();
                ev(format!(
                    "{{\"ev\":\"clone\",\"from\":{},\"to\":{},\"key\":\"{}\",\"payload\":{}}}",
                    self.serial, serial, $key, self.payload
                ));
                Self {
                    serial,
                    payload: self.payload,
                    body: ($mkbody)(self.payload),
                }
            }
        }
        impl$(<$g>)? Serialize for $name {
            fn serialize<S: Serializer>(&self, s: S) -> Result<S::Ok, S::Error> {
                self.payload.serialize(s)
            }
        }
        impl<'de $(, $g)?> Deserialize<'de> for $name {
            fn deserialize<D: Deserializer<'de>>(d: D) -> Result<Self, D::Error> {
                Ok(Self::make(de_payload(d)?))
            }
        }
    };
}

tracked!(Tracked, "Tracked", Box<u64>, |p: u32| Box::new(p as u64));
tracked!(TrackedOdd, "TrackedOdd", u32, |p: u32| !p);
tracked!(TrackedBig, "TrackedBig", [u64; 5], |p: u32| [p as u64; 5]);
tracked!(Str, "Str", String, |p: u32| format!("payload-{}", p));
tracked!(VecU, "VecU", Vec<u32>, |p: u32| vec![p; (p % 5) as usize]);
// auto-trait palette
tracked!(RcT, "RcT", Rc<u32>, |p: u32| Rc::new(p));
tracked!(CellT, "CellT", Cell<u32>, |p: u32| Cell::new(p));
tracked!(PtrT, "PtrT", *const u8, |_p: u32| std::ptr::null::<u8>());
tracked!(GuardT, "GuardT", PhantomData<std::sync::MutexGuard<'static, ()>>, |_p: u32| PhantomData);
// generic types whose names mention a type that is not Send / not Sync although they are both:
// `lab_types::FnOf<lab_types::RcT>` (function pointers are Send + Sync whatever their argument) and
// `lab_types::Shared<lab_types::CellT>` (a mutex makes a Send value shareable)
tracked!(FnOf<T>, "FnRc", fn(T) -> usize, |_p: u32| {
    fn f<X>(_: X) -> usize {
        0
    }
    f::<T> as fn(T) -> usize
});
tracked!(Shared<T>, "MxCell", std::sync::Arc<std::sync::Mutex<Option<T>>>, |_p: u32| std::sync::Arc::new(
    std::sync::Mutex::new(None)
));
// a user generic type whose argument is a standard type: `lab_types::Wrap<alloc::string::String>`
tracked!(Wrap<T>, "WrapStr", PhantomData<T>, |_p: u32| PhantomData);
pub type WrapStr = Wrap<String>;
pub type FnRc = FnOf<RcT>;
pub type MxCell = Shared<CellT>;
const _: () = {
    fn both<X: Send + Sync>() {}
    #[allow(dead_code)]
    fn check() {
        both::<FnRc>();
        both::<MxCell>();
    }
};

/// Zero-size type with a destructor: no identity (serial 0), destructions are counted.
#[derive(Debug, Default)]
pub struct ZstDrop;
impl LabVal for ZstDrop {
    const KEY: &'static str = "ZstDrop";
    const TRACKED: bool = false;
    fn make(_payload: u32) -> Self {
        ev("{\"ev\":\"make\",\"serial\":0,\"key\":\"ZstDrop\",\"payload\":0}".to_owned());
        ZstDrop
    }
    fn payload(&self) -> u32 {
        0
    }
    fn serial(&self) -> u32 {
        0
    }
    fn touch(&mut self) {}
}
impl Drop for ZstDrop {
    fn drop(&mut self) {
        ev("{\"ev\":\"destroy\",\"serial\":0,\"key\":\"ZstDrop\"}".to_owned());
    }
}
impl Clone for ZstDrop {
    fn clone(&self) -> Self {
        clone_gate();
        ev("{\"ev\":\"clone\",\"from\":0,\"to\":0,\"key\":\"ZstDrop\",\"payload\":0}".to_owned());
        ZstDrop
    }
}
impl Serialize for ZstDrop {
    fn serialize<S: Serializer>(&self, s: S) -> Result<S::Ok, S::Error> {
        0u32.serialize(s)
    }
}
impl<'de> Deserialize<'de> for ZstDrop {
    fn deserialize<D: Deserializer<'de>>(d: D) -> Result<Self, D::Error> {
        de_payload(d)?;
        Ok(Self::make(0))
    }
}

/// Compile-time probe: does `T` implement Send / Sync?  (inherent associated consts on a
/// bounded impl shadow the blanket trait consts)
pub struct Probe<T: ?Sized>(PhantomData<T>);
pub trait ProbeFallback {
    const IS_SEND: bool = false;
    const IS_SYNC: bool = false;
}
impl<T: ?Sized> ProbeFallback for Probe<T> {}
pub struct ProbeSend<T: ?Sized>(PhantomData<T>);
pub struct ProbeSync<T: ?Sized>(PhantomData<T>);
pub trait ProbeSendFallback {
    const YES: bool = false;
}
impl<T: ?Sized> ProbeSendFallback for ProbeSend<T> {}
impl<T: ?Sized + Send> ProbeSend<T> {
    pub const YES: bool = true;
}
pub trait ProbeSyncFallback {
    const YES: bool = false;
}
impl<T: ?Sized> ProbeSyncFallback for ProbeSync<T> {}
impl<T: ?Sized + Sync> ProbeSync<T> {
    pub const YES: bool = true;
}

/// A user type whose path ends with the path of a standard type (C17: only the standard paths
/// themselves are shortened); two bytes, so that a confusion with `String` shows in every table.
pub mod compat {
    pub mod alloc {
        pub mod string {
            #[derive(Debug, Clone, Copy, Default, PartialEq, Eq)]
            pub struct String(pub u16);
        }
    }
}
