//! Runs scripted scenarios of `try_convert_vec_in_place` on the real runtime and records one
//! ndjson event stream: scenario, converter calls and outcomes, drops of every tracked value,
//! release of the vector's buffer (logging global allocator), the hook events of the loop
//! (when built with --cfg truc_verif) and what the caller received.
//!
//! usage: vec_driver <scenarios.ndjson> <trace.ndjson>

use std::{
    alloc::{GlobalAlloc, Layout, System},
    any::Any,
    cell::RefCell,
    fs::File,
    io::{BufRead, BufReader, BufWriter, Write},
    panic::{catch_unwind, panic_any, AssertUnwindSafe},
    sync::atomic::{AtomicBool, AtomicUsize, Ordering},
};

use serde_json::{json, Value};
use truc_runtime::convert::{try_convert_vec_in_place, VecElementConversionResult};

// ------------------------------------------------------------------------------- allocator

static WATCH_PTR: AtomicUsize = AtomicUsize::new(0);
static WATCH_FREED: AtomicBool = AtomicBool::new(false);

struct LoggingAlloc;

unsafe impl GlobalAlloc for LoggingAlloc {
    unsafe fn alloc(&self, layout: Layout) -> *mut u8 {
        System.alloc(layout)
    }
    unsafe fn dealloc(&self, ptr: *mut u8, layout: Layout) {
        // no allocation in here: only remember that the watched buffer was released; the
        // event is written before the next harness event, which preserves its order
        // relative to every other event of the stream
        if ptr as usize == WATCH_PTR.load(Ordering::SeqCst) && ptr as usize != 0 {
            WATCH_FREED.store(true, Ordering::SeqCst);
            WATCH_PTR.store(0, Ordering::SeqCst);
        }
        System.dealloc(ptr, layout)
    }
    unsafe fn realloc(&self, ptr: *mut u8, layout: Layout, new_size: usize) -> *mut u8 {
        let p = System.realloc(ptr, layout, new_size);
        if ptr as usize == WATCH_PTR.load(Ordering::SeqCst) && ptr as usize != 0 && p != ptr {
            WATCH_FREED.store(true, Ordering::SeqCst);
            WATCH_PTR.store(0, Ordering::SeqCst);
        }
        p
    }
}

#[global_allocator]
static ALLOC: LoggingAlloc = LoggingAlloc;

// ------------------------------------------------------------------------------- event sink

thread_local! {
    static OWN_SINK: RefCell<Vec<String>> = RefCell::new(Vec::new());
    static SCRIPT: RefCell<Vec<Value>> = RefCell::new(Vec::new());
    static NEXT_OUT: RefCell<u32> = RefCell::new(1);
}

fn raw_emit(line: String) {
    #[cfg(truc_verif)]
    {
        truc_runtime::verif::emit(line);
    }
    #[cfg(not(truc_verif))]
    {
        OWN_SINK.with(|s| s.borrow_mut().push(line));
    }
}

fn ev(v: Value) {
    if WATCH_FREED.swap(false, Ordering::SeqCst) {
        raw_emit("{\"ev\":\"dealloc\"}".to_owned());
    }
    raw_emit(v.to_string());
}

fn drain() -> Vec<String> {
    if WATCH_FREED.swap(false, Ordering::SeqCst) {
        raw_emit("{\"ev\":\"dealloc\"}".to_owned());
    }
    #[cfg(truc_verif)]
    {
        truc_runtime::verif::drain()
    }
    #[cfg(not(truc_verif))]
    {
        OWN_SINK.with(|s| std::mem::take(&mut *s.borrow_mut()))
    }
}

// ------------------------------------------------------------------------------- element types

trait ElemT: Sized {
    const TRACKED: bool = true;
    fn new(id: u32) -> Self;
    fn id(&self) -> u32;
}
trait ElemU: Sized {
    const TRACKED: bool = true;
    fn new(id: u32) -> Self;
    fn id(&self) -> u32;
    fn touch(&mut self);
    fn payload(&self) -> u32;
}

/// Tracked element: K = 0 input type, K = 1 output type; same layout for the same body.
struct Elem<const K: u8, B> {
    id: u32,
    payload: u32,
    #[allow(dead_code)]
    body: B,
}

impl<const K: u8, B> Drop for Elem<K, B> {
    fn drop(&mut self) {
        ev(json!({"ev":"drop","k": if K == 0 {"T"} else {"U"},"id":self.id}));
    }
}

trait Body {
    fn make(id: u32) -> Self;
}
impl Body for () {
    fn make(_: u32) -> Self {}
}
impl Body for Box<u64> {
    fn make(id: u32) -> Self {
        Box::new(id as u64)
    }
}
impl Body for String {
    fn make(id: u32) -> Self {
        format!("value-{}", id)
    }
}
impl Body for [u8; 4096] {
    fn make(id: u32) -> Self {
        [id as u8; 4096]
    }
}
#[repr(align(64))]
struct Align64(#[allow(dead_code)] u8);
impl Body for Align64 {
    fn make(id: u32) -> Self {
        Align64(id as u8)
    }
}
impl Body for u64 {
    fn make(id: u32) -> Self {
        id as u64
    }
}

impl<B: Body> ElemT for Elem<0, B> {
    fn new(id: u32) -> Self {
        Elem {
            id,
            payload: 0,
            body: B::make(id),
        }
    }
    fn id(&self) -> u32 {
        self.id
    }
}
impl<B: Body> ElemU for Elem<1, B> {
    fn new(id: u32) -> Self {
        Elem {
            id,
            payload: 0,
            body: B::make(id),
        }
    }
    fn id(&self) -> u32 {
        self.id
    }
    fn touch(&mut self) {
        self.payload += 1;
    }
    fn payload(&self) -> u32 {
        self.payload
    }
}

/// Zero-size tracked elements: no identity (id 0).
struct Zst<const K: u8>;
impl<const K: u8> Drop for Zst<K> {
    fn drop(&mut self) {
        ev(json!({"ev":"drop","k": if K == 0 {"T"} else {"U"},"id":0}));
    }
}
impl ElemT for Zst<0> {
    fn new(_: u32) -> Self {
        Zst
    }
    fn id(&self) -> u32 {
        0
    }
}
impl ElemU for Zst<1> {
    fn new(_: u32) -> Self {
        Zst
    }
    fn id(&self) -> u32 {
        0
    }
    fn touch(&mut self) {}
    fn payload(&self) -> u32 {
        0
    }
}

/// Plain data without destructor (not tracked by the ledger).
#[derive(Clone, Copy)]
struct Plain<const K: u8> {
    id: u32,
    payload: u32,
}
impl ElemT for Plain<0> {
    const TRACKED: bool = false;
    fn new(id: u32) -> Self {
        Plain { id, payload: 0 }
    }
    fn id(&self) -> u32 {
        self.id
    }
}
impl ElemU for Plain<1> {
    const TRACKED: bool = false;
    fn new(id: u32) -> Self {
        Plain { id, payload: 0 }
    }
    fn id(&self) -> u32 {
        self.id
    }
    fn touch(&mut self) {
        self.payload += 1;
    }
    fn payload(&self) -> u32 {
        self.payload
    }
}

/// Same size as Elem<_, ()> (8 bytes) but alignment 8 instead of 4.
#[repr(align(8))]
struct A8<const K: u8> {
    id: u32,
    payload: u32,
}
impl<const K: u8> Drop for A8<K> {
    fn drop(&mut self) {
        ev(json!({"ev":"drop","k": if K == 0 {"T"} else {"U"},"id":self.id}));
    }
}
impl ElemT for A8<0> {
    fn new(id: u32) -> Self {
        A8 { id, payload: 0 }
    }
    fn id(&self) -> u32 {
        self.id
    }
}
impl ElemU for A8<1> {
    fn new(id: u32) -> Self {
        A8 { id, payload: 0 }
    }
    fn id(&self) -> u32 {
        self.id
    }
    fn touch(&mut self) {
        self.payload += 1;
    }
    fn payload(&self) -> u32 {
        self.payload
    }
}

struct ErrVal {
    id: u32,
}
struct PanicVal {
    id: u32,
}

// ------------------------------------------------------------------------------- scenario

/// Untracked element of `S` bytes aligned like `A` (refusal grid of C10: every combination of
/// a few sizes and alignments, in both directions).
#[repr(C)]
struct Shape<const K: u8, const S: usize, A> {
    _a: [A; 0],
    b: [u8; S],
}
impl<const S: usize, A> ElemT for Shape<0, S, A> {
    const TRACKED: bool = false;
    fn new(_: u32) -> Self {
        Shape { _a: [], b: [0; S] }
    }
    fn id(&self) -> u32 {
        self.b.first().copied().unwrap_or(0) as u32
    }
}
impl<const S: usize, A> ElemU for Shape<1, S, A> {
    const TRACKED: bool = false;
    fn new(_: u32) -> Self {
        Shape { _a: [], b: [0; S] }
    }
    fn id(&self) -> u32 {
        0
    }
    fn touch(&mut self) {}
    fn payload(&self) -> u32 {
        0
    }
}

fn converter<T: ElemT, U: ElemU>(
    t: T,
    prev: Option<&mut U>,
) -> Result<VecElementConversionResult<U>, ErrVal> {
    let step = SCRIPT.with(|s| {
        let mut s = s.borrow_mut();
        if s.is_empty() {
            json!({"end":"converted","make":true})
        } else {
            s.remove(0)
        }
    });
    ev(json!({"ev":"call","i":t.id(),"hasprev":prev.is_some(),
        "prev":prev.as_ref().map_or(0, |p| p.id())}));
    let early = step["drop_input"].as_str().unwrap_or("early") == "early";
    let mut held = Some(t);
    if early {
        held = None;
    }
    if step["touch"].as_bool().unwrap_or(false) {
        if let Some(p) = prev {
            p.touch();
            ev(json!({"ev":"touch","out":p.id(),"payload":p.payload()}));
        }
    }
    let end = step["end"].as_str().unwrap_or("converted");
    let mut made = None;
    let mut made_id = 0;
    if step["make"].as_bool().unwrap_or(end == "converted") || end == "converted" {
        let oid = NEXT_OUT.with(|n| {
            let mut n = n.borrow_mut();
            let v = *n;
            *n += 1;
            v
        });
        let u = U::new(oid);
        ev(json!({"ev":"make","out":oid}));
        made = Some(u);
        made_id = oid;
    }
    let fid = step["fid"].as_u64().unwrap_or(7) as u32;
    match end {
        "converted" => {
            drop(held);
            let u = made.unwrap();
            ev(json!({"ev":"conv","kind":"converted","out":made_id,"fid":0}));
            Ok(VecElementConversionResult::Converted(u))
        }
        "abandoned" => {
            drop(held);
            drop(made);
            ev(json!({"ev":"conv","kind":"abandoned","out":0,"fid":0}));
            Ok(VecElementConversionResult::Abandonned)
        }
        "err" => {
            drop(held);
            drop(made);
            ev(json!({"ev":"conv","kind":"err","out":0,"fid":fid}));
            Err(ErrVal { id: fid })
        }
        _ => {
            ev(json!({"ev":"conv","kind":"panic","out":0,"fid":fid}));
            // `held` (if late) and `made` are dropped by unwinding
            panic_any(PanicVal { id: fid })
        }
    }
}

fn payload_id(p: &Box<dyn Any + Send>) -> (i64, bool) {
    if let Some(v) = p.downcast_ref::<PanicVal>() {
        (v.id as i64, false)
    } else if p.downcast_ref::<String>().is_some() || p.downcast_ref::<&'static str>().is_some() {
        // a panic message: raised by the library itself (the converter of this driver only ever
        // panics with a PanicVal); its wording is not specified and not looked at
        (-1, true)
    } else {
        (-2, true)
    }
}

fn run<T: ElemT, U: ElemU>(sc: &Value, out: &mut Vec<String>) {
    let n = sc["n"].as_u64().unwrap() as usize;
    let extra = sc["extra_cap"].as_u64().unwrap_or(0) as usize;
    SCRIPT.with(|s| *s.borrow_mut() = sc["script"].as_array().cloned().unwrap_or_default());
    NEXT_OUT.with(|x| *x.borrow_mut() = 1);
    #[cfg(truc_verif)]
    truc_runtime::verif::install();
    let mut input: Vec<T> = Vec::with_capacity(n + extra);
    for i in 0..n {
        input.push(T::new(i as u32 + 1));
    }
    let ptr = input.as_ptr() as usize;
    let cap = input.capacity();
    let zst = std::mem::size_of::<T>() == 0;
    let hasbuf = !zst && cap > 0;
    let mismatch = std::mem::size_of::<T>() != std::mem::size_of::<U>()
        || std::mem::align_of::<T>() != std::mem::align_of::<U>();
    ev(json!({"ev":"scenario","sid":sc["sid"],"pair":sc["pair"],"n":n,"mismatch":mismatch,
        "hasbuf":hasbuf,"zst":zst,"trackedT":T::TRACKED,"trackedU":U::TRACKED,
        "hooks":cfg!(truc_verif),"profile": if cfg!(debug_assertions) {"debug"} else {"release"},
        "sizeT":std::mem::size_of::<T>(),"alignT":std::mem::align_of::<T>(),
        "sizeU":std::mem::size_of::<U>(),"alignU":std::mem::align_of::<U>()}));
    WATCH_FREED.store(false, Ordering::SeqCst);
    WATCH_PTR.store(if hasbuf { ptr } else { 0 }, Ordering::SeqCst);
    let res = catch_unwind(AssertUnwindSafe(|| {
        try_convert_vec_in_place::<T, U, _, ErrVal>(input, converter::<T, U>)
    }));
    match res {
        Ok(Ok(v)) => {
            let ids: Vec<u32> = v.iter().map(|u| u.id()).collect();
            let payloads: Vec<u32> = v.iter().map(|u| u.payload()).collect();
            ev(json!({"ev":"ret","kind":"ok","len":v.len(),"ids":ids,"payloads":payloads,"fid":0,
                "assert":false,
                "same_ptr": v.as_ptr() as usize == ptr, "same_cap": v.capacity() == cap}));
            drop(v);
        }
        Ok(Err(e)) => {
            ev(json!({"ev":"ret","kind":"err","len":0,"ids":[],"payloads":[],"fid":e.id,
                "assert":false,"same_ptr":false,"same_cap":false}));
        }
        Err(p) => {
            let (fid, is_assert) = payload_id(&p);
            ev(json!({"ev":"ret","kind":"panic","len":0,"ids":[],"payloads":[],"fid":fid,
                "assert":is_assert,"same_ptr":false,"same_cap":false}));
        }
    }
    ev(json!({"ev":"end"}));
    WATCH_PTR.store(0, Ordering::SeqCst);
    out.extend(drain());
}

fn dispatch(sc: &Value, out: &mut Vec<String>) {
    match sc["pair"].as_str().unwrap() {
        "tracked" => run::<Elem<0, ()>, Elem<1, ()>>(sc, out),
        "box" => run::<Elem<0, Box<u64>>, Elem<1, Box<u64>>>(sc, out),
        "string" => run::<Elem<0, String>, Elem<1, String>>(sc, out),
        "big" => run::<Elem<0, [u8; 4096]>, Elem<1, [u8; 4096]>>(sc, out),
        "align64" => run::<Elem<0, Align64>, Elem<1, Align64>>(sc, out),
        "zst" => run::<Zst<0>, Zst<1>>(sc, out),
        "plain" => run::<Plain<0>, Plain<1>>(sc, out),
        "drop_to_plain" => run::<Elem<0, ()>, Plain<1>>(sc, out),
        "plain_to_drop" => run::<Plain<0>, Elem<1, ()>>(sc, out),
        // refused pairs
        "mm_size" => run::<Elem<0, ()>, Elem<1, u64>>(sc, out),
        "mm_align" => run::<Elem<0, ()>, A8<1>>(sc, out),
        // the same mismatches in the other direction (input larger / more aligned than output)
        "mm_align_down" => run::<A8<0>, Elem<1, ()>>(sc, out),
        "mm_size_down" => run::<Elem<0, u64>, Elem<1, ()>>(sc, out),
        "mm_both_down" => run::<Elem<0, Align64>, Elem<1, ()>>(sc, out),
        "mm_both" => run::<Elem<0, ()>, Elem<1, Align64>>(sc, out),
        "mm_zst_in" => run::<Zst<0>, Elem<1, ()>>(sc, out),
        "mm_zst_out" => run::<Elem<0, ()>, Zst<1>>(sc, out),
        // refusal grid: same alignment / other size, same size / other alignment
        "g_a1_s0_s1" => run::<Shape<0, 0, u8>, Shape<1, 1, u8>>(sc, out),
        "g_a1_s0_s2" => run::<Shape<0, 0, u8>, Shape<1, 2, u8>>(sc, out),
        "g_a1_s0_s3" => run::<Shape<0, 0, u8>, Shape<1, 3, u8>>(sc, out),
        "g_a1_s1_s0" => run::<Shape<0, 1, u8>, Shape<1, 0, u8>>(sc, out),
        "g_a1_s1_s2" => run::<Shape<0, 1, u8>, Shape<1, 2, u8>>(sc, out),
        "g_a1_s1_s3" => run::<Shape<0, 1, u8>, Shape<1, 3, u8>>(sc, out),
        "g_a1_s2_s0" => run::<Shape<0, 2, u8>, Shape<1, 0, u8>>(sc, out),
        "g_a1_s2_s1" => run::<Shape<0, 2, u8>, Shape<1, 1, u8>>(sc, out),
        "g_a1_s2_s3" => run::<Shape<0, 2, u8>, Shape<1, 3, u8>>(sc, out),
        "g_a1_s3_s0" => run::<Shape<0, 3, u8>, Shape<1, 0, u8>>(sc, out),
        "g_a1_s3_s1" => run::<Shape<0, 3, u8>, Shape<1, 1, u8>>(sc, out),
        "g_a1_s3_s2" => run::<Shape<0, 3, u8>, Shape<1, 2, u8>>(sc, out),
        "g_a2_s0_s2" => run::<Shape<0, 0, u16>, Shape<1, 2, u16>>(sc, out),
        "g_a2_s0_s4" => run::<Shape<0, 0, u16>, Shape<1, 4, u16>>(sc, out),
        "g_a2_s0_s6" => run::<Shape<0, 0, u16>, Shape<1, 6, u16>>(sc, out),
        "g_a2_s2_s0" => run::<Shape<0, 2, u16>, Shape<1, 0, u16>>(sc, out),
        "g_a2_s2_s4" => run::<Shape<0, 2, u16>, Shape<1, 4, u16>>(sc, out),
        "g_a2_s2_s6" => run::<Shape<0, 2, u16>, Shape<1, 6, u16>>(sc, out),
        "g_a2_s4_s0" => run::<Shape<0, 4, u16>, Shape<1, 0, u16>>(sc, out),
        "g_a2_s4_s2" => run::<Shape<0, 4, u16>, Shape<1, 2, u16>>(sc, out),
        "g_a2_s4_s6" => run::<Shape<0, 4, u16>, Shape<1, 6, u16>>(sc, out),
        "g_a2_s6_s0" => run::<Shape<0, 6, u16>, Shape<1, 0, u16>>(sc, out),
        "g_a2_s6_s2" => run::<Shape<0, 6, u16>, Shape<1, 2, u16>>(sc, out),
        "g_a2_s6_s4" => run::<Shape<0, 6, u16>, Shape<1, 4, u16>>(sc, out),
        "g_a4_s0_s4" => run::<Shape<0, 0, u32>, Shape<1, 4, u32>>(sc, out),
        "g_a4_s0_s8" => run::<Shape<0, 0, u32>, Shape<1, 8, u32>>(sc, out),
        "g_a4_s0_s12" => run::<Shape<0, 0, u32>, Shape<1, 12, u32>>(sc, out),
        "g_a4_s4_s0" => run::<Shape<0, 4, u32>, Shape<1, 0, u32>>(sc, out),
        "g_a4_s4_s8" => run::<Shape<0, 4, u32>, Shape<1, 8, u32>>(sc, out),
        "g_a4_s4_s12" => run::<Shape<0, 4, u32>, Shape<1, 12, u32>>(sc, out),
        "g_a4_s8_s0" => run::<Shape<0, 8, u32>, Shape<1, 0, u32>>(sc, out),
        "g_a4_s8_s4" => run::<Shape<0, 8, u32>, Shape<1, 4, u32>>(sc, out),
        "g_a4_s8_s12" => run::<Shape<0, 8, u32>, Shape<1, 12, u32>>(sc, out),
        "g_a4_s12_s0" => run::<Shape<0, 12, u32>, Shape<1, 0, u32>>(sc, out),
        "g_a4_s12_s4" => run::<Shape<0, 12, u32>, Shape<1, 4, u32>>(sc, out),
        "g_a4_s12_s8" => run::<Shape<0, 12, u32>, Shape<1, 8, u32>>(sc, out),
        "g_a8_s0_s8" => run::<Shape<0, 0, u64>, Shape<1, 8, u64>>(sc, out),
        "g_a8_s0_s16" => run::<Shape<0, 0, u64>, Shape<1, 16, u64>>(sc, out),
        "g_a8_s0_s24" => run::<Shape<0, 0, u64>, Shape<1, 24, u64>>(sc, out),
        "g_a8_s8_s0" => run::<Shape<0, 8, u64>, Shape<1, 0, u64>>(sc, out),
        "g_a8_s8_s16" => run::<Shape<0, 8, u64>, Shape<1, 16, u64>>(sc, out),
        "g_a8_s8_s24" => run::<Shape<0, 8, u64>, Shape<1, 24, u64>>(sc, out),
        "g_a8_s16_s0" => run::<Shape<0, 16, u64>, Shape<1, 0, u64>>(sc, out),
        "g_a8_s16_s8" => run::<Shape<0, 16, u64>, Shape<1, 8, u64>>(sc, out),
        "g_a8_s16_s24" => run::<Shape<0, 16, u64>, Shape<1, 24, u64>>(sc, out),
        "g_a8_s24_s0" => run::<Shape<0, 24, u64>, Shape<1, 0, u64>>(sc, out),
        "g_a8_s24_s8" => run::<Shape<0, 24, u64>, Shape<1, 8, u64>>(sc, out),
        "g_a8_s24_s16" => run::<Shape<0, 24, u64>, Shape<1, 16, u64>>(sc, out),
        "g_s0_a1_a2" => run::<Shape<0, 0, u8>, Shape<1, 0, u16>>(sc, out),
        "g_s0_a1_a4" => run::<Shape<0, 0, u8>, Shape<1, 0, u32>>(sc, out),
        "g_s0_a1_a8" => run::<Shape<0, 0, u8>, Shape<1, 0, u64>>(sc, out),
        "g_s0_a2_a1" => run::<Shape<0, 0, u16>, Shape<1, 0, u8>>(sc, out),
        "g_s0_a2_a4" => run::<Shape<0, 0, u16>, Shape<1, 0, u32>>(sc, out),
        "g_s0_a2_a8" => run::<Shape<0, 0, u16>, Shape<1, 0, u64>>(sc, out),
        "g_s0_a4_a1" => run::<Shape<0, 0, u32>, Shape<1, 0, u8>>(sc, out),
        "g_s0_a4_a2" => run::<Shape<0, 0, u32>, Shape<1, 0, u16>>(sc, out),
        "g_s0_a4_a8" => run::<Shape<0, 0, u32>, Shape<1, 0, u64>>(sc, out),
        "g_s0_a8_a1" => run::<Shape<0, 0, u64>, Shape<1, 0, u8>>(sc, out),
        "g_s0_a8_a2" => run::<Shape<0, 0, u64>, Shape<1, 0, u16>>(sc, out),
        "g_s0_a8_a4" => run::<Shape<0, 0, u64>, Shape<1, 0, u32>>(sc, out),
        "g_s8_a1_a2" => run::<Shape<0, 8, u8>, Shape<1, 8, u16>>(sc, out),
        "g_s8_a1_a4" => run::<Shape<0, 8, u8>, Shape<1, 8, u32>>(sc, out),
        "g_s8_a1_a8" => run::<Shape<0, 8, u8>, Shape<1, 8, u64>>(sc, out),
        "g_s8_a2_a1" => run::<Shape<0, 8, u16>, Shape<1, 8, u8>>(sc, out),
        "g_s8_a2_a4" => run::<Shape<0, 8, u16>, Shape<1, 8, u32>>(sc, out),
        "g_s8_a2_a8" => run::<Shape<0, 8, u16>, Shape<1, 8, u64>>(sc, out),
        "g_s8_a4_a1" => run::<Shape<0, 8, u32>, Shape<1, 8, u8>>(sc, out),
        "g_s8_a4_a2" => run::<Shape<0, 8, u32>, Shape<1, 8, u16>>(sc, out),
        "g_s8_a4_a8" => run::<Shape<0, 8, u32>, Shape<1, 8, u64>>(sc, out),
        "g_s8_a8_a1" => run::<Shape<0, 8, u64>, Shape<1, 8, u8>>(sc, out),
        "g_s8_a8_a2" => run::<Shape<0, 8, u64>, Shape<1, 8, u16>>(sc, out),
        "g_s8_a8_a4" => run::<Shape<0, 8, u64>, Shape<1, 8, u32>>(sc, out),
        "g_s24_a1_a2" => run::<Shape<0, 24, u8>, Shape<1, 24, u16>>(sc, out),
        "g_s24_a1_a4" => run::<Shape<0, 24, u8>, Shape<1, 24, u32>>(sc, out),
        "g_s24_a1_a8" => run::<Shape<0, 24, u8>, Shape<1, 24, u64>>(sc, out),
        "g_s24_a2_a1" => run::<Shape<0, 24, u16>, Shape<1, 24, u8>>(sc, out),
        "g_s24_a2_a4" => run::<Shape<0, 24, u16>, Shape<1, 24, u32>>(sc, out),
        "g_s24_a2_a8" => run::<Shape<0, 24, u16>, Shape<1, 24, u64>>(sc, out),
        "g_s24_a4_a1" => run::<Shape<0, 24, u32>, Shape<1, 24, u8>>(sc, out),
        "g_s24_a4_a2" => run::<Shape<0, 24, u32>, Shape<1, 24, u16>>(sc, out),
        "g_s24_a4_a8" => run::<Shape<0, 24, u32>, Shape<1, 24, u64>>(sc, out),
        "g_s24_a8_a1" => run::<Shape<0, 24, u64>, Shape<1, 24, u8>>(sc, out),
        "g_s24_a8_a2" => run::<Shape<0, 24, u64>, Shape<1, 24, u16>>(sc, out),
        "g_s24_a8_a4" => run::<Shape<0, 24, u64>, Shape<1, 24, u32>>(sc, out),
        other => panic!("unknown pair {}", other),
    }
}

fn main() {
    let args: Vec<String> = std::env::args().collect();
    if args.len() < 3 {
        eprintln!("usage: vec_driver <scenarios.ndjson> <trace.ndjson>");
        std::process::exit(2);
    }
    std::panic::set_hook(Box::new(|_| {}));
    let skip: usize = args.get(3).map_or(0, |s| s.parse().unwrap());
    let input = BufReader::new(File::open(&args[1]).expect("scenarios"));
    // appended to: a run that died (the code under test corrupted the heap) is resumed after the
    // scenario that killed it
    let mut w = BufWriter::new(
        std::fs::OpenOptions::new().create(true).append(true).open(&args[2]).expect("trace"),
    );
    let mut nsc = 0u64;
    let mut nev = 0u64;
    for (idx, line) in input.lines().enumerate() {
        let line = line.unwrap();
        if idx < skip || line.trim().is_empty() {
            continue;
        }
        // which scenario is running, should the process die in it
        w.write_all(format!("{{\"ev\":\"running\",\"index\":{}}}\n", idx).as_bytes()).unwrap();
        w.flush().unwrap();
        let sc: Value = serde_json::from_str(&line).expect("scenario json");
        let mut out = Vec::new();
        dispatch(&sc, &mut out);
        nsc += 1;
        for l in out {
            w.write_all(l.as_bytes()).unwrap();
            w.write_all(b"\n").unwrap();
            nev += 1;
        }
        w.flush().unwrap();
    }
    w.flush().unwrap();
    println!("{{\"scenarios\":{},\"events\":{}}}", nsc, nev);
}
