//! Compile test (C13): every lab definition generated with each selection of the optional
//! fragments, included as modules exactly like a user crate would.
#![allow(unused, non_snake_case, clippy::all)]
#[macro_use]
extern crate static_assertions;

#[path = "gen/compile_all.rs"]
mod all;
