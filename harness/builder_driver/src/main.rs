//! Replays builder histories (JSON, one per line) into the real truc builders and records one
//! ndjson event per call, after it returned (also on the error / panic path): arguments,
//! result and the projected state.  Ids are written 1-based (TLA+ convention), the
//! `usize::MAX` sentinel offset as -1.
//!
//! usage: builder_driver <histories.ndjson> <trace.ndjson> <mode A|B>
//!   mode A: runs 1 (as scripted), 2 (same again, same process), 3 (decorrelated Rust types
//!           and entry points) of every history, then the conversions
//!   mode B: run 4 = run 1 again, in this separately started process (histories in reverse order)
//!   mode F<n>: run n (5, 6, ...) = the requests of run 1 again on ANOTHER HOST (this binary is then
//!           interpreted by Miri for a foreign target): layout and Display only, no code generation

use std::{
    cell::RefCell,
    collections::BTreeMap,
    fs::File,
    io::{BufRead, BufReader, BufWriter, Write},
    panic::{catch_unwind, AssertUnwindSafe},
};

use serde_json::{json, Value};
use truc::{
    generator::{
        config::GeneratorConfig,
        fragment::{clone::CloneImplGenerator, serde::SerdeImplGenerator, FragmentGenerator},
        generate,
    },
    record::{
        definition::{
            builder::{
                generic::{variant as gvariant, GenericRecordDefinitionBuilder},
                native::{variant as nvariant, DatumDefinitionOverride, NativeRecordDefinitionBuilder},
            },
            convert::convert_record_definition,
            DatumDefinition, DatumId, NativeDatumDetails, RecordDefinition, RecordVariantId,
        },
        type_resolver::{DynamicTypeInfo, StaticTypeResolver, TypeInfo, TypeResolver},
    },
};

/// Resolver whose answers are scripted by the history, whatever `T` is.
struct Scripted {
    next: RefCell<Option<DynamicTypeInfo>>,
    /// a REAL pre-computed table holding every shape of the current history (via "table")
    table: RefCell<Option<StaticTypeResolver>>,
    use_table: std::cell::Cell<bool>,
}

impl Scripted {
    fn set(&self, name: &str, size: usize, align: usize, uninit: bool) {
        *self.next.borrow_mut() = Some(DynamicTypeInfo {
            info: TypeInfo {
                name: name.to_owned(),
                size,
                align,
            },
            allow_uninit: uninit,
        });
    }
}

impl TypeResolver for Scripted {
    fn type_info<T>(&self) -> TypeInfo {
        self.next.borrow().as_ref().expect("scripted").info.clone()
    }
    fn dynamic_type_info(&self, type_name: &str) -> DynamicTypeInfo {
        if self.use_table.get() {
            return self.table.borrow().as_ref().expect("table").dynamic_type_info(type_name);
        }
        self.next.borrow().as_ref().expect("scripted").clone()
    }
}

fn table_key(sh: &Shape) -> String {
    format!("{}{}", sh.tname, if sh.uninit { "U" } else { "" })
}

/// The table of one history: one entry per shape it adds, keyed by a name that carries the flag.
fn table_of(calls: &[Value]) -> StaticTypeResolver {
    let mut m: BTreeMap<String, DynamicTypeInfo> = BTreeMap::new();
    for c in calls {
        if c["op"] == "add" {
            let sh = shape_of(c);
            m.insert(
                table_key(&sh),
                DynamicTypeInfo {
                    info: TypeInfo {
                        name: sh.tname.clone(),
                        size: sh.size,
                        align: sh.align,
                    },
                    allow_uninit: sh.uninit,
                },
            );
        }
    }
    StaticTypeResolver::from(m)
}

static LAYOUT_ONLY: std::sync::atomic::AtomicBool = std::sync::atomic::AtomicBool::new(false);

fn off(o: usize) -> i64 {
    if o == usize::MAX {
        -1
    } else {
        o as i64
    }
}

fn id1(id: DatumId) -> i64 {
    // DatumId displays as its index
    id.to_string().parse::<i64>().unwrap() + 1
}
fn vid1(id: RecordVariantId) -> i64 {
    id.to_string().parse::<i64>().unwrap() + 1
}

fn fnv(s: &str) -> String {
    let mut h: u64 = 0xcbf29ce484222325;
    for b in s.as_bytes() {
        h ^= *b as u64;
        h = h.wrapping_mul(0x100000001b3);
    }
    format!("{:016x}", h)
}

// Palette of Rust types used as the `T` of typed entry points (their own size / alignment
// must never matter: the resolver's answer is the scripted one).
macro_rules! with_t {
    ($idx:expr, $b:ident, $name:ident, $m:ident) => {
        match $idx % 10 {
            0 => $b.$m::<u8, _>($name),
            1 => $b.$m::<u16, _>($name),
            2 => $b.$m::<u32, _>($name),
            3 => $b.$m::<u64, _>($name),
            4 => $b.$m::<u128, _>($name),
            5 => $b.$m::<[u8; 3], _>($name),
            6 => $b.$m::<(), _>($name),
            7 => $b.$m::<[u64; 0], _>($name),
            8 => $b.$m::<(u8, u64), _>($name),
            _ => $b.$m::<[u32; 5], _>($name),
        }
    };
}
macro_rules! with_t_over {
    ($idx:expr, $b:ident, $name:ident, $ov:ident) => {
        match $idx % 6 {
            0 => $b.add_datum_override::<u8, _>($name, $ov),
            1 => $b.add_datum_override::<String, _>($name, $ov),
            2 => $b.add_datum_override::<u32, _>($name, $ov),
            3 => $b.add_datum_override::<Vec<u64>, _>($name, $ov),
            4 => $b.add_datum_override::<u128, _>($name, $ov),
            _ => $b.add_datum_override::<(), _>($name, $ov),
        }
    };
}
macro_rules! with_t_any {
    ($idx:expr, $b:ident, $name:ident) => {
        match $idx % 8 {
            0 => $b.add_datum::<u8, _>($name),
            1 => $b.add_datum::<String, _>($name),
            2 => $b.add_datum::<u32, _>($name),
            3 => $b.add_datum::<Vec<u64>, _>($name),
            4 => $b.add_datum::<u128, _>($name),
            5 => $b.add_datum::<(), _>($name),
            6 => $b.add_datum::<Box<str>, _>($name),
            _ => $b.add_datum::<[u16; 7], _>($name),
        }
    };
}

const VIAS: [&str; 7] = [
    "typed",
    "uninit",
    "override",
    "override_partial",
    "dynamic",
    "copy",
    "table",
];

#[derive(Clone)]
struct Shape {
    tname: String,
    size: usize,
    align: usize,
    uninit: bool,
}

trait Target {
    fn kind(&self) -> &'static str;
    fn add(&mut self, name: &str, sh: &Shape, via: &str, tidx: usize) -> Result<DatumId, String>;
    fn remove(&mut self, id: DatumId) -> Result<(), String>;
    fn close(&mut self, strategy: &str) -> RecordVariantId;
    fn cur(&self) -> Vec<i64>;
    fn nvar(&self) -> i64;
    fn ndefs(&self) -> usize;
    fn datum(&self, idx0: usize) -> Option<Value>;
    fn variant_list(&self, v0: usize) -> Option<Vec<i64>>;
    fn qcur(&self, name: &str) -> i64;
    fn qvar(&self, v0: usize, name: &str) -> i64;
}

struct NativeT<'a> {
    b: NativeRecordDefinitionBuilder<&'a Scripted>,
    r: &'a Scripted,
    nvar: i64,
    ndefs: usize,
}

impl<'a> NativeT<'a> {
    fn new(r: &'a Scripted) -> Self {
        Self {
            b: NativeRecordDefinitionBuilder::new(r),
            r,
            nvar: 0,
            ndefs: 0,
        }
    }
}

fn datum_json(d: &DatumDefinition<NativeDatumDetails>) -> Value {
    json!({
        "id": id1(d.id()),
        "name": d.name(),
        "tname": d.details().type_name(),
        "size": d.details().size(),
        "align": d.details().type_align(),
        "off": off(d.details().offset()),
        "uninit": d.details().allow_uninit(),
    })
}

impl<'a> Target for NativeT<'a> {
    fn kind(&self) -> &'static str {
        "native"
    }
    fn add(&mut self, name: &str, sh: &Shape, via: &str, tidx: usize) -> Result<DatumId, String> {
        let b = &mut self.b;
        let res = match via {
            "typed" => {
                self.r.set(&sh.tname, sh.size, sh.align, false);
                with_t_any!(tidx, b, name)
            }
            "uninit" => {
                self.r.set(&sh.tname, sh.size, sh.align, false);
                with_t!(tidx, b, name, add_datum_allow_uninit)
            }
            "override" => {
                // the resolver answers garbage, the override carries everything
                self.r.set("WRONG", sh.size + 3, sh.align * 2, !sh.uninit);
                let ov = DatumDefinitionOverride {
                    type_name: Some(sh.tname.clone()),
                    size: Some(sh.size),
                    align: Some(sh.align),
                    allow_uninit: Some(sh.uninit),
                };
                with_t_over!(tidx, b, name, ov)
            }
            "override_partial" => {
                // the resolver answers the layout, the override only the name (and the flag)
                self.r.set("WRONG", sh.size, sh.align, !sh.uninit);
                let ov = DatumDefinitionOverride {
                    type_name: Some(sh.tname.clone()),
                    size: None,
                    align: None,
                    allow_uninit: if sh.uninit { Some(true) } else { None },
                };
                with_t_over!(tidx, b, name, ov)
            }
            "dynamic" => {
                self.r.set(&sh.tname, sh.size, sh.align, sh.uninit);
                b.add_dynamic_datum(name, "some :: dynamic < name >")
            }
            "table" => {
                // a real StaticTypeResolver, looked up by a name held in short-lived heap storage
                // (the way names read from a configuration file are)
                self.r.set("WRONG", sh.size + 5, sh.align * 2, !sh.uninit);
                let owned: String = table_key(sh).chars().collect();
                self.r.use_table.set(true);
                let res = catch_unwind(AssertUnwindSafe(|| b.add_dynamic_datum(name, owned.as_str())));
                self.r.use_table.set(false);
                drop(owned);
                res.unwrap_or_else(|_| Err("panic".to_owned()))
            }
            "copy" => {
                let d = DatumDefinition::new(
                    DatumId::from(777usize),
                    name.to_owned(),
                    NativeDatumDetails::new(
                        12345,
                        TypeInfo {
                            name: sh.tname.clone(),
                            size: sh.size,
                            align: sh.align,
                        },
                        sh.uninit,
                    ),
                );
                b.copy_datum(&d)
            }
            other => panic!("unknown via {}", other),
        };
        if res.is_ok() {
            self.ndefs += 1;
        }
        res
    }
    fn remove(&mut self, id: DatumId) -> Result<(), String> {
        self.b.remove_datum(id)
    }
    fn close(&mut self, strategy: &str) -> RecordVariantId {
        let v = match strategy {
            "simple" => self.b.close_record_variant_with(nvariant::simple),
            "default" => self.b.close_record_variant(),
            "basic" => self.b.close_record_variant_with(nvariant::basic),
            "append" => self.b.close_record_variant_with(nvariant::append_data),
            "append_rev" => self.b.close_record_variant_with(nvariant::append_data_reverse),
            other => panic!("unknown strategy {}", other),
        };
        self.nvar = self.nvar.max(vid1(v));
        v
    }
    fn cur(&self) -> Vec<i64> {
        self.b.get_current_data().map(id1).collect()
    }
    fn nvar(&self) -> i64 {
        self.nvar
    }
    fn ndefs(&self) -> usize {
        self.ndefs
    }
    fn datum(&self, idx0: usize) -> Option<Value> {
        // Index<DatumId> panics on an unknown id; the driver only asks for ids it was given
        catch_unwind(AssertUnwindSafe(|| datum_json(&self.b[DatumId::from(idx0)]))).ok()
    }
    fn variant_list(&self, v0: usize) -> Option<Vec<i64>> {
        catch_unwind(AssertUnwindSafe(|| {
            self.b[RecordVariantId::from(v0)].data().map(id1).collect()
        }))
        .ok()
    }
    fn qcur(&self, name: &str) -> i64 {
        self.b
            .get_current_datum_definition_by_name(name)
            .map_or(0, |d| id1(d.id()))
    }
    fn qvar(&self, v0: usize, name: &str) -> i64 {
        self.b
            .get_variant_datum_definition_by_name(RecordVariantId::from(v0), name)
            .map_or(0, |d| id1(d.id()))
    }
}

struct GenericT {
    b: GenericRecordDefinitionBuilder<Shape>,
    nvar: i64,
    ndefs: usize,
}

impl GenericT {
    fn new() -> Self {
        Self {
            b: GenericRecordDefinitionBuilder::new(),
            nvar: 0,
            ndefs: 0,
        }
    }
}

fn gdatum_json(d: &DatumDefinition<Shape>) -> Value {
    json!({
        "id": id1(d.id()),
        "name": d.name(),
        "tname": d.details().tname,
        "size": d.details().size,
        "align": d.details().align,
        "off": -1,
        "uninit": d.details().uninit,
    })
}

impl Target for GenericT {
    fn kind(&self) -> &'static str {
        "generic"
    }
    fn add(&mut self, name: &str, sh: &Shape, _via: &str, _tidx: usize) -> Result<DatumId, String> {
        let res = self.b.add_datum(name, sh.clone());
        if res.is_ok() {
            self.ndefs += 1;
        }
        res
    }
    fn remove(&mut self, id: DatumId) -> Result<(), String> {
        self.b.remove_datum(id)
    }
    fn close(&mut self, strategy: &str) -> RecordVariantId {
        let v = match strategy {
            "append" => self.b.close_record_variant_with(gvariant::append_data),
            "append_rev" => self.b.close_record_variant_with(gvariant::append_data_reverse),
            other => panic!("unknown generic strategy {}", other),
        };
        self.nvar = self.nvar.max(vid1(v));
        v
    }
    fn cur(&self) -> Vec<i64> {
        self.b.get_current_data().map(id1).collect()
    }
    fn nvar(&self) -> i64 {
        self.nvar
    }
    fn ndefs(&self) -> usize {
        self.ndefs
    }
    fn datum(&self, idx0: usize) -> Option<Value> {
        self.b.get_datum_definition(DatumId::from(idx0)).map(gdatum_json)
    }
    fn variant_list(&self, v0: usize) -> Option<Vec<i64>> {
        self.b
            .get_variant(RecordVariantId::from(v0))
            .map(|v| v.data().map(id1).collect())
    }
    fn qcur(&self, name: &str) -> i64 {
        self.b
            .get_current_datum_definition_by_name(name)
            .map_or(0, |d| id1(d.id()))
    }
    fn qvar(&self, v0: usize, name: &str) -> i64 {
        self.b
            .get_variant_datum_definition_by_name(RecordVariantId::from(v0), name)
            .map_or(0, |d| id1(d.id()))
    }
}

struct Out {
    w: BufWriter<File>,
    n: u64,
}
impl Out {
    fn ev(&mut self, v: Value) {
        serde_json::to_writer(&mut self.w, &v).unwrap();
        self.w.write_all(b"\n").unwrap();
        self.n += 1;
    }
}

fn all_offs(t: &dyn Target) -> Vec<i64> {
    (0..t.ndefs())
        .map(|i| t.datum(i).map_or(-2, |d| d["off"].as_i64().unwrap()))
        .collect()
}

fn shape_of(c: &Value) -> Shape {
    let size = c["size"].as_u64().unwrap() as usize;
    let align = c["align"].as_u64().unwrap() as usize;
    Shape {
        tname: c["tname"]
            .as_str()
            .map(|s| s.to_owned())
            .unwrap_or_else(|| format!("S{}A{}", size, align)),
        size,
        align,
        uninit: c["uninit"].as_bool().unwrap_or(false),
    }
}

/// Executes the calls of one history (up to, not including, a final `build`) on a target.
fn run_calls(t: &mut dyn Target, calls: &[Value], run: u64, out: &mut Out) {
    for (ci, c) in calls.iter().enumerate() {
        let op = c["op"].as_str().unwrap();
        match op {
            "add" => {
                let sh = shape_of(c);
                let name = c["name"].as_str().unwrap();
                let via0 = c["via"].as_str().unwrap_or("typed");
                // run 3 decorrelates the entry point and the Rust type from the script
                let (via, tidx) = if run == 3 {
                    let mut v = VIAS[(ci * 5 + 3) % VIAS.len()];
                    // entry points that cannot express the scripted flag are skipped
                    if sh.uninit && v == "typed" {
                        v = "dynamic";
                    }
                    if !sh.uninit && v == "uninit" {
                        v = "copy";
                    }
                    (v, ci * 3 + 5)
                } else {
                    (via0, ci)
                };
                let res = t.add(name, &sh, via, tidx);
                let (r, id) = match &res {
                    Ok(id) => ("ok", id1(*id)),
                    Err(_) => ("err", 0),
                };
                let rec = match &res {
                    Ok(id) => t.datum((id1(*id) - 1) as usize).unwrap_or(Value::Null),
                    Err(_) => Value::Null,
                };
                out.ev(json!({"ev":"add","name":name,"size":sh.size,"align":sh.align,
                    "uninit": if via == "uninit" { true } else if via == "typed" { false } else { sh.uninit },
                    "via":via,"res":r,"id":id,
                    "rsize": rec.get("size").and_then(Value::as_i64).unwrap_or(-1),
                    "ralign": rec.get("align").and_then(Value::as_i64).unwrap_or(-1),
                    "runinit": rec.get("uninit").and_then(Value::as_bool).unwrap_or(false),
                    "rname": rec.get("name").and_then(Value::as_str).unwrap_or(""),
                    "rtname": rec.get("tname").and_then(Value::as_str).unwrap_or(""),
                    "tname": sh.tname,
                    "roff": rec.get("off").and_then(Value::as_i64).unwrap_or(-1),
                    "cur":t.cur(),"nvar":t.nvar()}));
            }
            "remove" => {
                let id = c["id"].as_i64().unwrap();
                // ids below 1 denote no datum at all: use an index far outside the collection
                let res = t.remove(DatumId::from(if id >= 1 { (id - 1) as usize } else { 999_999 }));
                out.ev(json!({"ev":"remove","id":id,"res": if res.is_ok() {"ok"} else {"err"},
                    "cur":t.cur(),"nvar":t.nvar()}));
            }
            "close" => {
                let s = c["strategy"].as_str().unwrap();
                let v = t.close(s);
                let list = t.variant_list((vid1(v) - 1) as usize).unwrap_or_default();
                out.ev(json!({"ev":"close","strategy": if s == "default" {"simple"} else {s},
                    "res":vid1(v),"nvar":t.nvar(),
                    "cur":t.cur(),"list":list,"offs":all_offs(t)}));
            }
            "qcur" => {
                let name = c["name"].as_str().unwrap();
                out.ev(json!({"ev":"qcur","name":name,"res":t.qcur(name)}));
            }
            "qvar" => {
                let name = c["name"].as_str().unwrap();
                let v = c["variant"].as_i64().unwrap();
                out.ev(json!({"ev":"qvar","variant":v,"name":name,
                    "res":t.qvar(if v >= 1 { (v - 1) as usize } else { 999_999 }, name)}));
            }
            "build" => {}
            other => panic!("unknown op {}", other),
        }
    }
}

fn parse_consts(code: &str) -> (i64, Vec<i64>) {
    let mut cap = -1;
    let mut aligns = Vec::new();
    for line in code.lines() {
        let l = line.trim();
        if let Some(rest) = l.strip_prefix("pub const MAX_SIZE: usize = ") {
            cap = rest.trim_end_matches(';').trim().parse().unwrap_or(-1);
        }
        if let Some(rest) = l.strip_prefix("#[repr(align(") {
            aligns.push(rest.trim_end_matches("))]").trim().parse().unwrap_or(-1));
        }
    }
    (cap, aligns)
}

fn build_event_native(
    def: &RecordDefinition<NativeDatumDetails>,
    extra: Value,
    out: &mut Out,
    evname: &str,
) {
    let variants: Vec<Vec<i64>> = def.variants().map(|v| v.data().map(id1).collect()).collect();
    let data: Vec<Value> = def.datum_definitions().map(datum_json).collect();
    // the same offsets again, this time through the definition's index by datum id
    let voffs: Vec<Vec<i64>> = def
        .variants()
        .map(|v| {
            v.data()
                .map(|d| {
                    catch_unwind(AssertUnwindSafe(|| off(def[d].details().offset()))).unwrap_or(-2)
                })
                .collect()
        })
        .collect();
    let max_size = catch_unwind(AssertUnwindSafe(|| def.max_size() as i64)).unwrap_or(-1);
    let max_align = catch_unwind(AssertUnwindSafe(|| def.max_type_align() as i64)).unwrap_or(-1);
    let display = catch_unwind(AssertUnwindSafe(|| def.to_string()));
    let gen = |custom: Vec<Box<dyn FragmentGenerator>>| {
        catch_unwind(AssertUnwindSafe(|| {
            generate(def, &GeneratorConfig::default_with_custom_generators(custom))
        }))
    };
    let layout_only = LAYOUT_ONLY.load(std::sync::atomic::Ordering::Relaxed);
    let (code0, code1) = if layout_only {
        (Ok("skipped".to_owned()), Ok("skipped".to_owned()))
    } else {
        (
            gen(vec![]),
            gen(vec![Box::new(CloneImplGenerator), Box::new(SerdeImplGenerator)]),
        )
    };
    let (cap, aligns) = code0.as_ref().map_or((-1, vec![]), |c| parse_consts(c));
    let mut ev = json!({"ev":evname,"res":"ok","variants":variants,"data":data,"voffs":voffs,
        "max_size":max_size,"max_align":max_align,
        "display": if display.is_ok() {"ok"} else {"panic"},
        "generate": if code0.is_ok() && code1.is_ok() {"ok"} else {"panic"},
        "pub_cap":cap,"pub_aligns":aligns,
        "code_hash": if layout_only { "skipped".to_owned() } else {
            format!("{}-{}", code0.as_ref().map_or("panic".into(), |c| fnv(c)),
                              code1.as_ref().map_or("panic".into(), |c| fnv(c))) },
        "display_hash": display.as_ref().map_or("panic".into(), |c| fnv(c))});
    for (k, v) in extra.as_object().unwrap() {
        ev[k] = v.clone();
    }
    out.ev(ev);
}

fn build_event_generic(def: &RecordDefinition<Shape>, extra: Value, out: &mut Out, evname: &str) {
    let variants: Vec<Vec<i64>> = def.variants().map(|v| v.data().map(id1).collect()).collect();
    let data: Vec<Value> = def.datum_definitions().map(gdatum_json).collect();
    let voffs: Vec<Vec<i64>> = variants.iter().map(|v| v.iter().map(|_| -1).collect()).collect();
    let mut ev = json!({"ev":evname,"res":"ok","variants":variants,"data":data,"voffs":voffs,
        "max_size":0,"max_align":1,"display":"ok","generate":"ok","pub_cap":0,
        "pub_aligns":Vec::<i64>::new(),"code_hash":"","display_hash":""});
    for (k, v) in extra.as_object().unwrap() {
        ev[k] = v.clone();
    }
    out.ev(ev);
}

fn vmap_json(m: &BTreeMap<RecordVariantId, RecordVariantId>) -> Vec<Vec<i64>> {
    m.iter().map(|(a, b)| vec![vid1(*a), vid1(*b)]).collect()
}

struct Ctx<'o, T: Target> {
    t: T,
    out: &'o mut Out,
    /// the `fail_at`-th add closure call returns an error without touching the target (0 = never)
    fail_at: usize,
    adds: usize,
    failed: bool,
    /// closure calls made by the helper AFTER a closure returned an error
    after: usize,
}

/// C20: the real helper, closures over a real target builder; the closure calls are logged as
/// ordinary builder events.
fn convert_native_source(
    src: &RecordDefinition<NativeDatumDetails>,
    target: &str,
    strategy: &str,
    fail_at: usize,
    resolver: &Scripted,
    out: &mut Out,
) {
    out.ev(json!({"ev":"convert_begin","target":target,"strategy":strategy}));
    fn add_cl<T: Target>(
        ctx: &mut Ctx<T>,
        d: &DatumDefinition<NativeDatumDetails>,
    ) -> Result<DatumId, String> {
        if ctx.failed {
            ctx.after += 1;
        }
        ctx.adds += 1;
        if ctx.fail_at != 0 && ctx.adds == ctx.fail_at && !ctx.failed {
            ctx.failed = true;
            return Err("injected closure failure".to_owned());
        }
        let sh = Shape {
            tname: d.details().type_name().to_owned(),
            size: d.details().size(),
            align: d.details().type_align(),
            uninit: d.details().allow_uninit(),
        };
        let res = ctx.t.add(d.name(), &sh, "copy", 0);
        let (r, id) = match &res {
            Ok(id) => ("ok", id1(*id)),
            Err(_) => ("err", 0),
        };
        let rec = match &res {
            Ok(id) => ctx.t.datum((id1(*id) - 1) as usize).unwrap_or(Value::Null),
            Err(_) => Value::Null,
        };
        ctx.out.ev(json!({"ev":"add","name":d.name(),"size":sh.size,"align":sh.align,
            "uninit":sh.uninit,"via":"copy","res":r,"id":id,
            "rsize": rec.get("size").and_then(Value::as_i64).unwrap_or(-1),
            "ralign": rec.get("align").and_then(Value::as_i64).unwrap_or(-1),
            "runinit": rec.get("uninit").and_then(Value::as_bool).unwrap_or(false),
            "rname": rec.get("name").and_then(Value::as_str).unwrap_or(""),
            "rtname": rec.get("tname").and_then(Value::as_str).unwrap_or(""),
            "tname": sh.tname,
            "roff": rec.get("off").and_then(Value::as_i64).unwrap_or(-1),
            "cur":ctx.t.cur(),"nvar":ctx.t.nvar()}));
        res
    }
    fn rm_cl<T: Target>(ctx: &mut Ctx<T>, id: DatumId) -> Result<(), String> {
        if ctx.failed {
            ctx.after += 1;
        }
        let res = ctx.t.remove(id);
        ctx.out.ev(json!({"ev":"remove","id":id1(id),"res": if res.is_ok() {"ok"} else {"err"},
            "cur":ctx.t.cur(),"nvar":ctx.t.nvar()}));
        res
    }
    if target == "native" {
        let mut ctx = Ctx {
            t: NativeT::new(resolver),
            out,
            fail_at,
            adds: 0,
            failed: false,
            after: 0,
        };
        let s = strategy.to_owned();
        let res = catch_unwind(AssertUnwindSafe(|| {
            convert_record_definition(
                src,
                add_cl::<NativeT>,
                rm_cl::<NativeT>,
                |ctx: &mut Ctx<NativeT>| {
                    if ctx.failed {
                        ctx.after += 1;
                    }
                    let v = ctx.t.close(&s);
                    let list = ctx.t.variant_list((vid1(v) - 1) as usize).unwrap_or_default();
                    ctx.out.ev(json!({"ev":"close","strategy":s,"res":vid1(v),"nvar":ctx.t.nvar(),
                        "cur":ctx.t.cur(),"list":list,"offs":all_offs(&ctx.t)}));
                    v
                },
                &mut ctx,
            )
        }));
        let Ctx { t, out, failed, after, .. } = ctx;
        let injected = if failed { fail_at } else { 0 };
        match res {
            Ok(Ok(map)) => {
                let built = catch_unwind(AssertUnwindSafe(|| t.b.build()));
                match built {
                    Ok(def) => build_event_native(
                        &def,
                        json!({"map": vmap_json(&map), "cres":"ok", "injected": injected, "after": after}),
                        out,
                        "convert_end",
                    ),
                    Err(_) => out.ev(json!({"ev":"convert_end","res":"panic","cres":"ok",
                        "map": vmap_json(&map), "injected": injected, "after": after})),
                }
            }
            Ok(Err(_)) => out.ev(json!({"ev":"convert_end","res":"ok","cres":"err","map":[],
                "injected": injected, "after": after})),
            Err(_) => out.ev(json!({"ev":"convert_end","res":"ok","cres":"panic","map":[],
                "injected": injected, "after": after})),
        }
    } else {
        let mut ctx = Ctx {
            t: GenericT::new(),
            out,
            fail_at,
            adds: 0,
            failed: false,
            after: 0,
        };
        let s = strategy.to_owned();
        let res = catch_unwind(AssertUnwindSafe(|| {
            convert_record_definition(
                src,
                add_cl::<GenericT>,
                rm_cl::<GenericT>,
                |ctx: &mut Ctx<GenericT>| {
                    if ctx.failed {
                        ctx.after += 1;
                    }
                    let v = ctx.t.close(&s);
                    let list = ctx.t.variant_list((vid1(v) - 1) as usize).unwrap_or_default();
                    ctx.out.ev(json!({"ev":"close","strategy":s,"res":vid1(v),"nvar":ctx.t.nvar(),
                        "cur":ctx.t.cur(),"list":list,"offs":all_offs(&ctx.t)}));
                    v
                },
                &mut ctx,
            )
        }));
        let Ctx { t, out, failed, after, .. } = ctx;
        let injected = if failed { fail_at } else { 0 };
        match res {
            Ok(Ok(map)) => {
                let built = catch_unwind(AssertUnwindSafe(|| t.b.build()));
                match built {
                    Ok(def) => build_event_generic(
                        &def,
                        json!({"map": vmap_json(&map), "cres":"ok", "injected": injected, "after": after}),
                        out,
                        "convert_end",
                    ),
                    Err(_) => out.ev(json!({"ev":"convert_end","res":"panic","cres":"ok",
                        "map": vmap_json(&map), "injected": injected, "after": after})),
                }
            }
            Ok(Err(_)) => out.ev(json!({"ev":"convert_end","res":"ok","cres":"err","map":[],
                "injected": injected, "after": after})),
            Err(_) => out.ev(json!({"ev":"convert_end","res":"ok","cres":"panic","map":[],
                "injected": injected, "after": after})),
        }
    }
}

fn run_history(h: &Value, run: u64, with_converts: bool, out: &mut Out) {
    let kind = h["kind"].as_str().unwrap_or("native");
    let calls = h["calls"].as_array().unwrap();
    let wants_build = calls.last().map_or(false, |c| c["op"] == "build");
    out.ev(json!({"ev":"reset","kind":kind,"hid":h["hid"],"group":h["group"],"run":run,
        "pid": std::process::id(),
        "host": {"ptr": std::mem::size_of::<usize>(), "a64": std::mem::align_of::<u64>(),
                 "a128": std::mem::align_of::<u128>(), "big_endian": cfg!(target_endian = "big")}}));
    let resolver = Scripted {
        next: RefCell::new(None),
        table: RefCell::new(Some(table_of(calls))),
        use_table: std::cell::Cell::new(false),
    };
    if kind == "native" {
        let mut t = NativeT::new(&resolver);
        run_calls(&mut t, calls, run, out);
        if wants_build {
            let built = catch_unwind(AssertUnwindSafe(|| t.b.build()));
            match built {
                Ok(def) => {
                    build_event_native(&def, json!({}), out, "build");
                    if with_converts {
                        if let Some(cs) = h["converts"].as_array() {
                            for c in cs {
                                convert_native_source(
                                    &def,
                                    c[0].as_str().unwrap(),
                                    c[1].as_str().unwrap(),
                                    c[2].as_u64().unwrap_or(0) as usize,
                                    &resolver,
                                    out,
                                );
                            }
                        }
                    }
                }
                Err(_) => out.ev(json!({"ev":"build","res":"panic"})),
            }
        }
    } else {
        let mut t = GenericT::new();
        run_calls(&mut t, calls, run, out);
        if wants_build {
            let built = catch_unwind(AssertUnwindSafe(|| t.b.build()));
            match built {
                Ok(def) => build_event_generic(&def, json!({}), out, "build"),
                Err(_) => out.ev(json!({"ev":"build","res":"panic"})),
            }
        }
    }
}

fn main() {
    let args: Vec<String> = std::env::args().collect();
    if args.len() < 4 {
        eprintln!("usage: builder_driver <histories.ndjson> <trace.ndjson> <A|B>");
        std::process::exit(2);
    }
    std::panic::set_hook(Box::new(|_| {}));
    let input = BufReader::new(File::open(&args[1]).expect("histories"));
    let mut out = Out {
        w: BufWriter::new(File::create(&args[2]).expect("trace")),
        n: 0,
    };
    let mode = args[3].as_str();
    let mut nh = 0u64;
    let mut lines: Vec<String> = input.lines().map(|l| l.unwrap()).collect();
    if mode == "B" {
        // the other process meets the histories in the opposite order: whatever survives from one
        // history to the next (caches, counters, interned names) differs between the two processes
        lines.reverse();
    }
    for line in lines {
        if line.trim().is_empty() {
            continue;
        }
        let h: Value = serde_json::from_str(&line).expect("history json");
        nh += 1;
        match mode {
            "A" => {
                run_history(&h, 1, true, &mut out);
                run_history(&h, 2, true, &mut out);
                if h["kind"].as_str().unwrap_or("native") == "native" {
                    run_history(&h, 3, false, &mut out);
                }
            }
            "B" => run_history(&h, 4, true, &mut out),
            "1" => run_history(&h, 1, true, &mut out),
            f if f.starts_with('F') => {
                LAYOUT_ONLY.store(true, std::sync::atomic::Ordering::Relaxed);
                run_history(&h, f[1..].parse().expect("run number"), false, &mut out)
            }
            other => panic!("mode {}", other),
        }
    }
    out.w.flush().unwrap();
    println!("{{\"histories\":{},\"events\":{}}}", nh, out.n);
}
