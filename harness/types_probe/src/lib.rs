//! C17: inside a module that imports nothing (only the std prelude and extern crates are in
//! scope, exactly like a generated module), `fn(T) -> <recorded name>` must type-check for every
//! enumerated type T: rustc decides whether the recorded name denotes T.
#![allow(unused, clippy::all)]
#[path = "gen/probe.rs"]
mod probe;
