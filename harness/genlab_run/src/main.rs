//! The compiled lab: runs operation scripts on REAL generated records.
//! usage: genlab_run <scripts.ndjson> <trace.ndjson> [first_script_index]
#[macro_use]
extern crate static_assertions;

mod support;
#[path = "gen/mod.rs"]
mod gen;

use std::io::{BufRead, BufReader};

use serde_json::{json, Value};

fn main() {
    let args: Vec<String> = std::env::args().collect();
    if args.len() < 3 {
        eprintln!("usage: genlab_run <scripts.ndjson> <trace.ndjson> [skip]");
        std::process::exit(2);
    }
    let skip: usize = args.get(3).map_or(0, |s| s.parse().unwrap());
    std::panic::set_hook(Box::new(|_| {}));
    lab_types::install_file(&args[2]);
    let input = BufReader::new(std::fs::File::open(&args[1]).expect("scripts"));
    for (i, line) in input.lines().enumerate() {
        let line = line.unwrap();
        if i < skip || line.trim().is_empty() {
            continue;
        }
        let sc: Value = serde_json::from_str(&line).expect("script json");
        let did = sc["did"].as_u64().unwrap();
        let capsel = sc["capsel"].as_u64().unwrap_or(0);
        lab_types::reset_serials();
        support::evj(json!({"ev":"script","sid":sc["sid"],"did":did,"capsel":capsel,"index":i,
            "hooks":lab_types::hooks_on(),"profile": if cfg!(debug_assertions) {"debug"} else {"release"},
            "types":gen::describe(did, capsel)}));
        gen::run(did, capsel, sc["ops"].as_array().unwrap());
    }
}
