//! Static support code of the generated drivers.
use std::panic::{catch_unwind, AssertUnwindSafe};

use serde::{de::DeserializeOwned, Serialize};
use serde_json::{json, Value};

pub enum Place<R> {
    Stack(R),
    Boxed(Box<R>),
    InVec(Vec<R>),
}

impl<R> Place<R> {
    pub fn new(r: R, place: &str) -> Self {
        match place {
            "box" => Place::Boxed(Box::new(r)),
            "vec" => {
                let mut v = Vec::with_capacity(2);
                v.push(r);
                Place::InVec(v)
            }
            _ => Place::Stack(r),
        }
    }
    pub fn get(&self) -> &R {
        match self {
            Place::Stack(r) => r,
            Place::Boxed(b) => b,
            Place::InVec(v) => &v[0],
        }
    }
    pub fn get_mut(&mut self) -> &mut R {
        match self {
            Place::Stack(r) => r,
            Place::Boxed(b) => b,
            Place::InVec(v) => &mut v[0],
        }
    }
    pub fn into_inner(self) -> R {
        match self {
            Place::Stack(r) => r,
            Place::Boxed(b) => *b,
            Place::InVec(mut v) => v.pop().unwrap(),
        }
    }
    pub fn addr(&self) -> usize {
        self.get() as *const R as usize
    }
}

pub fn evj(v: Value) {
    lab_types::ev(v.to_string());
}

pub fn out(vals: Vec<Value>) {
    evj(json!({"ev":"out","vals":vals}));
}

pub fn fail(why: &str) {
    evj(json!({"ev":"fail","why":why}));
}

/// payload supplied by the script for field `fid`
pub fn val(op: &Value, fid: u64) -> u32 {
    op["vals"]
        .as_array()
        .and_then(|a| a.iter().find(|p| p[0].as_u64() == Some(fid)))
        .map(|p| p[1].as_u64().unwrap() as u32)
        .unwrap_or_else(|| panic!("script: no value for field {}", fid))
}

pub fn run_op(op: &Value, a0: usize, a1: usize, f: impl FnOnce()) {
    let mut b = op.clone();
    b["ev"] = json!("begin");
    b["a1"] = json!(a0.to_string());
    b["a2"] = json!(a1.to_string());
    for k in ["slot", "v", "f", "k"] {
        if b.get(k).is_none() {
            b[k] = json!(0);
        }
    }
    for k in ["place", "fmt"] {
        if b.get(k).is_none() {
            b[k] = json!("");
        }
    }
    if b.get("vals").is_none() {
        b["vals"] = json!([]);
    }
    if b.get("mut").is_none() {
        b["mut"] = json!(["none", 0]);
    }
    evj(b);
    let r = catch_unwind(AssertUnwindSafe(f));
    evj(json!({"ev":"end","op":op["op"],"res": if r.is_ok() {"ok"} else {"panic"}}));
}

/// Serialises a record and returns the encoded elements (every palette type encodes as one
/// u32 payload), in the order of the encoding.
pub fn encode<T: Serialize>(rec: &T, fmt: &str) -> Vec<u32> {
    match fmt {
        "bincode" => {
            let bytes = bincode::serialize(rec).expect("bincode");
            assert!(bytes.len() % 4 == 0);
            bytes
                .chunks(4)
                .map(|c| u32::from_le_bytes([c[0], c[1], c[2], c[3]]))
                .collect()
        }
        "jsonvalue" => serde_json::to_value(rec)
            .expect("to_value")
            .as_array()
            .expect("array")
            .iter()
            .map(|x| x.as_u64().unwrap() as u32)
            .collect(),
        _ => {
            let text = serde_json::to_string(rec).expect("to_string");
            let v: Value = serde_json::from_str(&text).expect("json");
            v.as_array()
                .expect("array")
                .iter()
                .map(|x| x.as_u64().unwrap() as u32)
                .collect()
        }
    }
}

/// ["none",0] | ["truncate",k] (keep k elements) | ["corrupt",k] (k-th element, 1-based,
/// undecodable) | ["extend",0] (one surplus element)
pub fn mutate(enc: &[u32], op: &Value) -> Vec<u32> {
    let mut v = enc.to_vec();
    let kind = op["mut"][0].as_str().unwrap_or("none");
    let k = op["mut"][1].as_u64().unwrap_or(0) as usize;
    match kind {
        "truncate" => v.truncate(k),
        "corrupt" => {
            if k >= 1 && k <= v.len() {
                v[k - 1] = lab_types::UNDECODABLE;
            }
        }
        "extend" => v.push(77),
        _ => {}
    }
    v
}

pub fn decode<T: DeserializeOwned>(enc: &[u32], fmt: &str) -> Result<T, String> {
    match fmt {
        "bincode" => {
            let mut bytes = Vec::new();
            for x in enc {
                bytes.extend_from_slice(&x.to_le_bytes());
            }
            bincode::deserialize::<T>(&bytes).map_err(|e| e.to_string())
        }
        "jsonvalue" => serde_json::from_value::<T>(Value::Array(enc.iter().map(|x| json!(x)).collect()))
            .map_err(|e| e.to_string()),
        _ => {
            let text = format!(
                "[{}]",
                enc.iter().map(|x| x.to_string()).collect::<Vec<_>>().join(",")
            );
            serde_json::from_str::<T>(&text).map_err(|e| e.to_string())
        }
    }
}
