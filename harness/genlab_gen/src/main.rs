//! Lab generator: replays lab definitions (JSON histories over palette keys) through the REAL
//! native builder with the REAL host resolver and real palette types, calls the REAL
//! `generate()` with the requested fragment selection, and writes for every definition
//!   <out>/d<k>_gen.rs   the generated module, verbatim
//!   <out>/d<k>.json     the definition as built (the `def` trace event)
//!   <out>/d<k>_drv.rs   a driver: an interpreter of operation scripts specialised to the
//!                       definition's field names and types
//! and <out>/mod.rs that ties them together.
//!
//! usage: genlab_gen <defs.ndjson> <out_dir>

use std::{
    fmt::Write as _,
    fs::File,
    io::{BufRead, BufReader, Write},
    panic::{catch_unwind, AssertUnwindSafe},
};

use serde_json::{json, Value};
use truc::{
    generator::{
        config::GeneratorConfig,
        fragment::{clone::CloneImplGenerator, serde::SerdeImplGenerator, FragmentGenerator},
        generate,
    },
    record::{
        definition::{
            builder::native::{variant, DatumDefinitionOverride, NativeRecordDefinitionBuilder},
            DatumId, NativeDatumDetails, RecordDefinition,
        },
        type_resolver::{HostTypeResolver, StaticTypeResolver, TypeResolver},
    },
};

struct KeyInfo {
    key: &'static str,
    copy: bool,
    tracked: bool,
    send: bool,
    sync: bool,
    droppable: bool,
}

const KEYS: &[KeyInfo] = &[
    KeyInfo { key: "P1", copy: true, tracked: false, send: true, sync: true, droppable: false },
    KeyInfo { key: "P2", copy: true, tracked: false, send: true, sync: true, droppable: false },
    KeyInfo { key: "P4", copy: true, tracked: false, send: true, sync: true, droppable: false },
    KeyInfo { key: "P8", copy: true, tracked: false, send: true, sync: true, droppable: false },
    KeyInfo { key: "P16", copy: true, tracked: false, send: true, sync: true, droppable: false },
    KeyInfo { key: "Odd3", copy: true, tracked: false, send: true, sync: true, droppable: false },
    KeyInfo { key: "Odd12", copy: true, tracked: false, send: true, sync: true, droppable: false },
    KeyInfo { key: "Odd24", copy: true, tracked: false, send: true, sync: true, droppable: false },
    KeyInfo { key: "Over16", copy: true, tracked: false, send: true, sync: true, droppable: false },
    KeyInfo { key: "Zst", copy: true, tracked: false, send: true, sync: true, droppable: false },
    KeyInfo { key: "ZstA8", copy: true, tracked: false, send: true, sync: true, droppable: false },
    KeyInfo { key: "ZstDrop", copy: false, tracked: false, send: true, sync: true, droppable: true },
    KeyInfo { key: "Tracked", copy: false, tracked: true, send: true, sync: true, droppable: true },
    KeyInfo { key: "TrackedOdd", copy: false, tracked: true, send: true, sync: true, droppable: true },
    KeyInfo { key: "TrackedBig", copy: false, tracked: true, send: true, sync: true, droppable: true },
    KeyInfo { key: "Str", copy: false, tracked: true, send: true, sync: true, droppable: true },
    KeyInfo { key: "VecU", copy: false, tracked: true, send: true, sync: true, droppable: true },
    KeyInfo { key: "RcT", copy: false, tracked: true, send: false, sync: false, droppable: true },
    KeyInfo { key: "CellT", copy: false, tracked: true, send: true, sync: false, droppable: true },
    KeyInfo { key: "PtrT", copy: false, tracked: true, send: false, sync: false, droppable: true },
    KeyInfo { key: "GuardT", copy: false, tracked: true, send: false, sync: true, droppable: true },
    KeyInfo { key: "OptP4", copy: true, tracked: false, send: true, sync: true, droppable: false },
    KeyInfo { key: "WrapStr", copy: false, tracked: true, send: true, sync: true, droppable: true },
    KeyInfo { key: "FnRc", copy: false, tracked: true, send: true, sync: true, droppable: true },
    KeyInfo { key: "MxCell", copy: false, tracked: true, send: true, sync: true, droppable: true },
];

fn key_info(key: &str) -> &'static KeyInfo {
    KEYS.iter().find(|k| k.key == key).unwrap_or_else(|| panic!("unknown key {}", key))
}

macro_rules! with_key {
    ($key:expr, $b:ident, $m:ident, $name:expr) => {
        match $key {
            "P1" => $b.$m::<lab_types::P1, _>($name),
            "P2" => $b.$m::<lab_types::P2, _>($name),
            "P4" => $b.$m::<lab_types::P4, _>($name),
            "P8" => $b.$m::<lab_types::P8, _>($name),
            "P16" => $b.$m::<lab_types::P16, _>($name),
            "Odd3" => $b.$m::<lab_types::Odd3, _>($name),
            "Odd12" => $b.$m::<lab_types::Odd12, _>($name),
            "Odd24" => $b.$m::<lab_types::Odd24, _>($name),
            "Over16" => $b.$m::<lab_types::Over16, _>($name),
            "Zst" => $b.$m::<lab_types::Zst, _>($name),
            "ZstA8" => $b.$m::<lab_types::ZstA8, _>($name),
            "OptP4" => $b.$m::<lab_types::OptP4, _>($name),
            other => panic!("key {} is not Copy", other),
        }
    };
}
macro_rules! with_key_any {
    ($key:expr, $b:ident, $name:expr) => {
        match $key {
            "ZstDrop" => $b.add_datum::<lab_types::ZstDrop, _>($name),
            "Tracked" => $b.add_datum::<lab_types::Tracked, _>($name),
            "TrackedOdd" => $b.add_datum::<lab_types::TrackedOdd, _>($name),
            "TrackedBig" => $b.add_datum::<lab_types::TrackedBig, _>($name),
            "Str" => $b.add_datum::<lab_types::Str, _>($name),
            "VecU" => $b.add_datum::<lab_types::VecU, _>($name),
            "RcT" => $b.add_datum::<lab_types::RcT, _>($name),
            "CellT" => $b.add_datum::<lab_types::CellT, _>($name),
            "PtrT" => $b.add_datum::<lab_types::PtrT, _>($name),
            "GuardT" => $b.add_datum::<lab_types::GuardT, _>($name),
            "WrapStr" => $b.add_datum::<lab_types::WrapStr, _>($name),
            "FnRc" => $b.add_datum::<lab_types::FnRc, _>($name),
            "MxCell" => $b.add_datum::<lab_types::MxCell, _>($name),
            other => with_key!(other, $b, add_datum, $name),
        }
    };
}

macro_rules! with_key_override {
    ($key:expr, $b:ident, $name:expr, $ov:expr) => {
        match $key {
            "P1" => $b.add_datum_override::<lab_types::P1, _>($name, $ov),
            "P2" => $b.add_datum_override::<lab_types::P2, _>($name, $ov),
            "P4" => $b.add_datum_override::<lab_types::P4, _>($name, $ov),
            "P8" => $b.add_datum_override::<lab_types::P8, _>($name, $ov),
            "P16" => $b.add_datum_override::<lab_types::P16, _>($name, $ov),
            "Odd3" => $b.add_datum_override::<lab_types::Odd3, _>($name, $ov),
            "Odd12" => $b.add_datum_override::<lab_types::Odd12, _>($name, $ov),
            "Odd24" => $b.add_datum_override::<lab_types::Odd24, _>($name, $ov),
            "Over16" => $b.add_datum_override::<lab_types::Over16, _>($name, $ov),
            "Zst" => $b.add_datum_override::<lab_types::Zst, _>($name, $ov),
            "ZstA8" => $b.add_datum_override::<lab_types::ZstA8, _>($name, $ov),
            "ZstDrop" => $b.add_datum_override::<lab_types::ZstDrop, _>($name, $ov),
            "Tracked" => $b.add_datum_override::<lab_types::Tracked, _>($name, $ov),
            "TrackedOdd" => $b.add_datum_override::<lab_types::TrackedOdd, _>($name, $ov),
            "TrackedBig" => $b.add_datum_override::<lab_types::TrackedBig, _>($name, $ov),
            "Str" => $b.add_datum_override::<lab_types::Str, _>($name, $ov),
            "VecU" => $b.add_datum_override::<lab_types::VecU, _>($name, $ov),
            "RcT" => $b.add_datum_override::<lab_types::RcT, _>($name, $ov),
            other => panic!("unknown key {}", other),
        }
    };
}

/// C11: one single-module probe crate target per case of the matrix TLC enumerated.
fn probe_mode(cases_path: &str, crate_dir: &str) {
    std::fs::create_dir_all(format!("{}/src/bin", crate_dir)).unwrap();
    std::fs::create_dir_all(format!("{}/src/gen", crate_dir)).unwrap();
    let input = BufReader::new(File::open(cases_path).expect("cases"));
    let mut report = Vec::new();
    for line in input.lines() {
        let line = line.unwrap();
        if line.trim().is_empty() {
            continue;
        }
        let c: Value = serde_json::from_str(&line).expect("case json");
        let n = c["id"].as_u64().unwrap();
        let key = c["key"].as_str().unwrap();
        let res = catch_unwind(AssertUnwindSafe(|| {
            let mut b = NativeRecordDefinitionBuilder::new(HostTypeResolver);
            if c["where"].as_u64().unwrap() == 2 {
                b.add_datum::<lab_types::P4, _>("first").unwrap();
                b.close_record_variant();
            }
            let twin = c["twin"].as_str().unwrap_or("none");
            let true_info = |sz: u64, al: u64| DatumDefinitionOverride {
                type_name: None,
                size: Some(sz as usize),
                align: Some(al as usize),
                allow_uninit: Some(false),
            };
            if twin == "before" {
                let ov = true_info(c["size"].as_u64().unwrap(), c["align"].as_u64().unwrap());
                with_key_override!(key, b, "twin", ov).unwrap();
                b.close_record_variant();
            }
            let ov = DatumDefinitionOverride {
                type_name: None,
                size: Some(c["rsize"].as_u64().unwrap() as usize),
                align: Some(c["ralign"].as_u64().unwrap() as usize),
                allow_uninit: Some(c["runinit"].as_bool().unwrap()),
            };
            with_key_override!(key, b, "target", ov).unwrap();
            b.close_record_variant();
            if twin == "after" {
                let ov = true_info(c["size"].as_u64().unwrap(), c["align"].as_u64().unwrap());
                with_key_override!(key, b, "twin", ov).unwrap();
                b.close_record_variant();
            }
            if c["life"].as_str().unwrap_or("kept") == "removed" {
                let id = b.get_current_datum_definition_by_name("target").expect("target").id();
                b.remove_datum(id).unwrap();
                b.add_datum::<lab_types::P4, _>("tail").unwrap();
                b.close_record_variant();
            }
            let def = b.build();
            generate(&def, &GeneratorConfig::default())
        }));
        match res {
            Ok(code) => {
                File::create(format!("{}/src/gen/p{}_gen.rs", crate_dir, n)).unwrap().write_all(code.as_bytes()).unwrap();
                let main = format!("#![allow(unused, clippy::all)]\n#[macro_use]\nextern crate static_assertions;\nmod gen {{ include!(\"../gen/p{}_gen.rs\"); }}\nfn main() {{}}\n", n);
                File::create(format!("{}/src/bin/p{}.rs", crate_dir, n)).unwrap().write_all(main.as_bytes()).unwrap();
                report.push(json!({"id": n, "status": "ok"}));
            }
            Err(_) => report.push(json!({"id": n, "status": "panic"})),
        }
    }
    println!("{}", Value::Array(report));
}

fn static_table() -> StaticTypeResolver {
    let mut r = StaticTypeResolver::new();
    r.add_type_allow_uninit::<lab_types::P1>();
    r.add_type_allow_uninit::<lab_types::P2>();
    r.add_type_allow_uninit::<lab_types::P4>();
    r.add_type_allow_uninit::<lab_types::P8>();
    r.add_type_allow_uninit::<lab_types::P16>();
    r.add_type_allow_uninit::<lab_types::Odd3>();
    r.add_type_allow_uninit::<lab_types::Odd12>();
    r.add_type_allow_uninit::<lab_types::Odd24>();
    r.add_type_allow_uninit::<lab_types::Over16>();
    r.add_type_allow_uninit::<lab_types::Zst>();
    r.add_type_allow_uninit::<lab_types::ZstA8>();
    r.add_type::<lab_types::ZstDrop>();
    r.add_type::<lab_types::Tracked>();
    r.add_type::<lab_types::TrackedOdd>();
    r.add_type::<lab_types::TrackedBig>();
    r.add_type::<lab_types::Str>();
    r.add_type::<lab_types::VecU>();
    r.add_type::<lab_types::RcT>();
    r.add_type::<lab_types::CellT>();
    r.add_type::<lab_types::PtrT>();
    r.add_type::<lab_types::GuardT>();
    r.add_type_allow_uninit::<lab_types::OptP4>();
    r.add_type::<lab_types::WrapStr>();
    r.add_type::<lab_types::FnRc>();
    r.add_type::<lab_types::MxCell>();
    r
}

struct Field {
    fid: usize, // 1-based datum id
    name: String,
    key: String,
    off: usize,
    size: usize,
    align: usize,
    uninit: bool,
}

struct Built {
    def: RecordDefinition<NativeDatumDetails>,
    keys: Vec<String>, // per datum id (0-based)
}

/// Replays one lab definition through the real builder with the given resolver.
fn build_with<R: TypeResolver>(d: &Value, resolver: R, is_table: bool) -> Built {
    let mut b = NativeRecordDefinitionBuilder::new(resolver);
    let mut keys: Vec<String> = Vec::new();
    let mut ids: Vec<(String, DatumId)> = Vec::new();
    for c in d["calls"].as_array().unwrap() {
        match c["op"].as_str().unwrap() {
            "add" => {
                let name = c["name"].as_str().unwrap();
                let key = c["key"].as_str().unwrap();
                let uninit = c["uninit"].as_bool().unwrap_or(false);
                let via = c["via"].as_str().unwrap_or("typed");
                let id = match (via, uninit) {
                    ("dynamic", _) if is_table => {
                        assert_eq!(uninit, key_info(key).copy, "dynamic entries carry the table's flag");
                        // the compiler's spelling with odd white space: the table normalises it
                        b.add_dynamic_datum(name, format!(" lab_types ::{} ", key))
                    }
                    (_, true) => with_key!(key, b, add_datum_allow_uninit, name),
                    (_, false) => with_key_any!(key, b, name),
                }
                .unwrap_or_else(|e| panic!("add {}: {}", name, e));
                keys.push(key.to_owned());
                ids.retain(|(n, _)| n != name);
                ids.push((name.to_owned(), id));
            }
            "remove" => {
                let name = c["name"].as_str().unwrap();
                let id = ids.iter().find(|(n, _)| n == name).expect("remove unknown").1;
                b.remove_datum(id).unwrap();
            }
            "close" => {
                match c["strategy"].as_str().unwrap_or("default") {
                    "simple" | "default" => b.close_record_variant(),
                    "basic" => b.close_record_variant_with(variant::basic),
                    "append" => b.close_record_variant_with(variant::append_data),
                    "append_rev" => b.close_record_variant_with(variant::append_data_reverse),
                    o => panic!("strategy {}", o),
                };
            }
            o => panic!("op {}", o),
        }
    }
    Built { def: b.build(), keys }
}

fn build(d: &Value) -> Built {
    if d["resolver"].as_str().unwrap_or("host") == "table" {
        let table = static_table();
        build_with(d, &table, true)
    } else {
        build_with(d, HostTypeResolver, false)
    }
}

fn fields_of(built: &Built, ids: impl Iterator<Item = DatumId>) -> Vec<Field> {
    ids.map(|id| {
        let d = &built.def[id];
        let idx: usize = id.to_string().parse().unwrap();
        Field {
            fid: idx + 1,
            name: d.name().to_owned(),
            key: built.keys[idx].clone(),
            off: d.details().offset(),
            size: d.details().size(),
            align: d.details().type_align(),
            uninit: d.details().allow_uninit(),
        }
    })
    .collect()
}

/// The name the runtime hooks report for the type behind a palette key (`std::any::type_name`).
fn key_tyname(key: &str) -> &'static str {
    use std::any::type_name as n;
    match key {
        "P1" => n::<lab_types::P1>(),
        "P2" => n::<lab_types::P2>(),
        "P4" => n::<lab_types::P4>(),
        "P8" => n::<lab_types::P8>(),
        "P16" => n::<lab_types::P16>(),
        "Odd3" => n::<lab_types::Odd3>(),
        "Odd12" => n::<lab_types::Odd12>(),
        "Odd24" => n::<lab_types::Odd24>(),
        "Over16" => n::<lab_types::Over16>(),
        "Zst" => n::<lab_types::Zst>(),
        "ZstA8" => n::<lab_types::ZstA8>(),
        "ZstDrop" => n::<lab_types::ZstDrop>(),
        "Tracked" => n::<lab_types::Tracked>(),
        "TrackedOdd" => n::<lab_types::TrackedOdd>(),
        "TrackedBig" => n::<lab_types::TrackedBig>(),
        "Str" => n::<lab_types::Str>(),
        "VecU" => n::<lab_types::VecU>(),
        "RcT" => n::<lab_types::RcT>(),
        "CellT" => n::<lab_types::CellT>(),
        "PtrT" => n::<lab_types::PtrT>(),
        "GuardT" => n::<lab_types::GuardT>(),
        "OptP4" => n::<lab_types::OptP4>(),
        "WrapStr" => n::<lab_types::WrapStr>(),
        "FnRc" => n::<lab_types::FnRc>(),
        "MxCell" => n::<lab_types::MxCell>(),
        other => panic!("unknown key {}", other),
    }
}

fn field_json(f: &Field) -> Value {
    let k = key_info(&f.key);
    json!({"fid": f.fid, "name": f.name, "key": f.key, "tyname": key_tyname(&f.key),
        "off": f.off, "size": f.size, "align": f.align,
        "uninit": f.uninit, "tracked": k.tracked, "droppable": k.droppable, "copy": k.copy,
        "send": k.send, "sync": k.sync})
}

fn ty(f: &Field) -> String {
    format!("lab_types::{}", f.key)
}

fn mk(f: &Field) -> String {
    format!("{}: <{} as LabVal>::make(val(op, {}))", f.name, ty(f), f.fid)
}

fn out_item(f: &Field, expr: &str) -> String {
    format!("json!([{}, {e}.serial(), {e}.payload()])", f.fid, e = expr)
}

/// Generates the driver of one definition.
fn driver(k: usize, variants: &[Vec<Field>], has_clone: bool, has_serde: bool, no_out: bool) -> String {
    let mut s = String::new();
    let nv = variants.len();
    writeln!(s, "// generated by genlab_gen: driver of lab definition {}", k).unwrap();
    writeln!(s, "#![allow(unused, non_snake_case, clippy::all)]").unwrap();
    writeln!(s, "pub mod gen {{ include!(\"d{}_gen.rs\"); }}", k).unwrap();
    writeln!(s, "use self::gen::*;\nuse lab_types::*;\nuse crate::support::*;\nuse serde_json::{{json, Value}};").unwrap();
    writeln!(s, "pub enum Rec<const CAP: usize> {{ None,").unwrap();
    for v in 0..nv {
        writeln!(s, "    V{v}(Place<CappedRecord{v}<CAP>>),").unwrap();
    }
    writeln!(s, "}}").unwrap();
    writeln!(s, "impl<const CAP: usize> Rec<CAP> {{").unwrap();
    writeln!(s, "    pub fn variant(&self) -> i64 {{ match self {{ Rec::None => -1,").unwrap();
    for v in 0..nv {
        writeln!(s, "        Rec::V{v}(_) => {v},").unwrap();
    }
    writeln!(s, "    }} }}").unwrap();
    writeln!(s, "    pub fn addr(&self) -> usize {{ match self {{ Rec::None => 0,").unwrap();
    for v in 0..nv {
        writeln!(s, "        Rec::V{v}(p) => p.addr(),").unwrap();
    }
    writeln!(s, "    }} }}\n}}").unwrap();
    writeln!(s, "pub struct St<const CAP: usize> {{ pub slots: [Rec<CAP>; 2], pub init: [std::collections::BTreeSet<u64>; 2], pub enc: Vec<u32> }}").unwrap();
    writeln!(s, "pub fn describe<const CAP: usize>() -> Value {{ json!([").unwrap();
    for v in 0..nv {
        writeln!(
            s,
            "    {{\"v\": {}, \"size\": std::mem::size_of::<CappedRecord{v}<CAP>>(), \"align\": std::mem::align_of::<CappedRecord{v}<CAP>>(), \"send\": ProbeSend::<CappedRecord{v}<CAP>>::YES, \"sync\": ProbeSync::<CappedRecord{v}<CAP>>::YES}},",
            v + 1
        )
        .unwrap();
    }
    writeln!(s, "    {{\"v\": 0, \"size\": std::mem::size_of::<RecordUninitialized<CAP>>(), \"align\": std::mem::align_of::<RecordUninitialized<CAP>>(), \"send\": true, \"sync\": true}},").unwrap();
    writeln!(s, "]) }}").unwrap();
    writeln!(s, "pub fn max_size() -> usize {{ MAX_SIZE }}").unwrap();
    writeln!(s, "pub fn run<const CAP: usize>(ops: &[Value]) {{").unwrap();
    writeln!(s, "    let mut st = St::<CAP> {{ slots: [Rec::None, Rec::None], init: [Default::default(), Default::default()], enc: Vec::new() }};").unwrap();
    writeln!(s, "    for op in ops {{").unwrap();
    writeln!(s, "        let a0 = st.slots[0].addr(); let a1 = st.slots[1].addr();").unwrap();
    writeln!(s, "        run_op(op, a0, a1, || step(&mut st, op));").unwrap();
    writeln!(s, "    }}").unwrap();
    writeln!(s, "    st.slots = [Rec::None, Rec::None];\n    evj(json!({{\"ev\":\"fin\"}}));\n}}").unwrap();

    writeln!(s, "fn step<const CAP: usize>(st: &mut St<CAP>, op: &Value) {{").unwrap();
    writeln!(s, "    let name = op[\"op\"].as_str().unwrap();\n    let s = (op[\"slot\"].as_u64().unwrap_or(1) - 1) as usize;\n    let place = op[\"place\"].as_str().unwrap_or(\"stack\");").unwrap();
    writeln!(s, "    let v = if matches!(name, \"new\" | \"new_uninit\" | \"from_unpacked\" | \"from_unpacked_uninit\" | \"de\") {{ op[\"v\"].as_i64().unwrap() - 1 }} else {{ st.slots[s].variant() }};").unwrap();
    writeln!(s, "    match (name, v) {{").unwrap();
    for (v, fields) in variants.iter().enumerate() {
        let all_ids = fields.iter().map(|f| f.fid.to_string()).collect::<Vec<_>>().join(", ");
        let mand: Vec<&Field> = fields.iter().filter(|f| !f.uninit).collect();
        let mand_ids = mand.iter().map(|f| f.fid.to_string()).collect::<Vec<_>>().join(", ");
        // constructors
        for (opn, ctor) in [("new", "new"), ("from_unpacked", "from")] {
            writeln!(s, "        (\"{opn}\", {v}) => {{").unwrap();
            writeln!(s, "            let u = UnpackedRecord{v} {{ {} }};", fields.iter().map(mk).collect::<Vec<_>>().join(", ")).unwrap();
            writeln!(s, "            let r = CappedRecord{v}::<CAP>::{ctor}(u);").unwrap();
            writeln!(s, "            st.slots[s] = Rec::V{v}(Place::new(r, place)); st.init[s] = [{all_ids}].into_iter().collect();").unwrap();
            writeln!(s, "        }}").unwrap();
        }
        for (opn, ctor) in [("new_uninit", "new_uninit"), ("from_unpacked_uninit", "from")] {
            writeln!(s, "        (\"{opn}\", {v}) => {{").unwrap();
            writeln!(s, "            let u = UnpackedUninitRecord{v} {{ {} }};", mand.iter().map(|f| mk(f)).collect::<Vec<_>>().join(", ")).unwrap();
            writeln!(s, "            let r = CappedRecord{v}::<CAP>::{ctor}(u);").unwrap();
            writeln!(s, "            st.slots[s] = Rec::V{v}(Place::new(r, place)); st.init[s] = [{mand_ids}].into_iter().collect();").unwrap();
            writeln!(s, "        }}").unwrap();
        }
        // accessors
        writeln!(s, "        (\"get\", {v}) => {{ if let Rec::V{v}(p) = &st.slots[s] {{ let r = p.get(); match op[\"f\"].as_u64().unwrap() {{").unwrap();
        for f in fields {
            writeln!(s, "            {} => out(vec![{}]),", f.fid, out_item(f, &format!("r.{}()", f.name))).unwrap();
        }
        writeln!(s, "            _ => panic!(\"no such field\") }} }} }}").unwrap();
        writeln!(s, "        (\"set\", {v}) => {{ if let Rec::V{v}(p) = &mut st.slots[s] {{ let r = p.get_mut(); match op[\"f\"].as_u64().unwrap() {{").unwrap();
        for f in fields {
            writeln!(s, "            {} => {{ *r.{}_mut() = <{} as LabVal>::make(val(op, {})); }}", f.fid, f.name, ty(f), f.fid).unwrap();
        }
        writeln!(s, "            _ => panic!(\"no such field\") }} st.init[s].insert(op[\"f\"].as_u64().unwrap()); }} }}").unwrap();
        writeln!(s, "        (\"touch\", {v}) => {{ if let Rec::V{v}(p) = &mut st.slots[s] {{ let r = p.get_mut(); match op[\"f\"].as_u64().unwrap() {{").unwrap();
        for f in fields {
            writeln!(s, "            {} => {{ r.{}_mut().touch(); }}", f.fid, f.name).unwrap();
        }
        writeln!(s, "            _ => panic!(\"no such field\") }} }} }}").unwrap();
        writeln!(s, "        (\"dump\", {v}) => {{ if let Rec::V{v}(p) = &st.slots[s] {{ let r = p.get(); let mut o = Vec::new();").unwrap();
        for f in fields {
            writeln!(s, "            if st.init[s].contains(&{}) {{ o.push({}); }}", f.fid, out_item(f, &format!("r.{}()", f.name))).unwrap();
        }
        writeln!(s, "            out(o); }} }}").unwrap();
        // unpack
        writeln!(s, "        (\"unpack\", {v}) => {{ if let Rec::V{v}(p) = std::mem::replace(&mut st.slots[s], Rec::None) {{").unwrap();
        writeln!(s, "            let u = p.into_inner().unpack(); let mut o = Vec::new();").unwrap();
        for f in fields {
            writeln!(s, "            if st.init[s].contains(&{}) {{ o.push({}); }}", f.fid, out_item(f, &format!("u.{}", f.name))).unwrap();
        }
        writeln!(s, "            out(o); st.init[s].clear(); drop(u); }} }}").unwrap();
        // conversions to the next variant
        if v + 1 < nv {
            let next = &variants[v + 1];
            let cur_ids: Vec<usize> = fields.iter().map(|f| f.fid).collect();
            let next_ids: Vec<usize> = next.iter().map(|f| f.fid).collect();
            let plus: Vec<&Field> = next.iter().filter(|f| !cur_ids.contains(&f.fid)).collect();
            let minus: Vec<&Field> = fields.iter().filter(|f| !next_ids.contains(&f.fid)).collect();
            let n = v + 1;
            for (form, full, outk) in [("full_simple", true, false), ("uninit_simple", false, false), ("full_out", true, true), ("uninit_out", false, true)] {
                if outk && no_out {
                    continue; // degraded driver: the and-out result type does not have the expected fields
                }
                writeln!(s, "        (\"convert_{form}\", {v}) => {{ if let Rec::V{v}(p) = std::mem::replace(&mut st.slots[s], Rec::None) {{").unwrap();
                writeln!(s, "            let from = p.into_inner();").unwrap();
                let pf: Vec<&&Field> = plus.iter().filter(|f| full || !f.uninit).collect();
                let inname = if full { format!("UnpackedRecordIn{n}") } else { format!("UnpackedUninitRecordIn{n}") };
                writeln!(s, "            let plus = {inname} {{ {} }};", pf.iter().map(|f| mk(f)).collect::<Vec<_>>().join(", ")).unwrap();
                if outk {
                    writeln!(s, "            let o = Record{n}AndUnpackedOut::<CAP>::from((from, plus)); let mut ov = Vec::new();").unwrap();
                    for f in &minus {
                        writeln!(s, "            if st.init[s].contains(&{}) {{ ov.push({}); }}", f.fid, out_item(f, &format!("o.{}", f.name))).unwrap();
                    }
                    writeln!(s, "            out(ov);").unwrap();
                    let pat = minus.iter().map(|f| format!(", {}: _m{}", f.name, f.fid)).collect::<String>();
                    writeln!(s, "            let Record{n}AndUnpackedOut {{ record{pat} }} = o;").unwrap();
                    writeln!(s, "            let r = record;").unwrap();
                } else {
                    writeln!(s, "            let r = CappedRecord{n}::<CAP>::from((from, plus));").unwrap();
                }
                for f in &minus {
                    writeln!(s, "            st.init[s].remove(&{});", f.fid).unwrap();
                }
                for f in &pf {
                    writeln!(s, "            st.init[s].insert({});", f.fid).unwrap();
                }
                writeln!(s, "            st.slots[s] = Rec::V{n}(Place::new(r, place)); }} }}").unwrap();
            }
            // the README pipeline: a vector of records converted in place through the generated From
            writeln!(s, "        (\"convert_vec\", {v}) => {{ if let Rec::V{v}(p) = std::mem::replace(&mut st.slots[s], Rec::None) {{").unwrap();
            writeln!(s, "            let from = p.into_inner();").unwrap();
            writeln!(s, "            let plus = UnpackedRecordIn{n} {{ {} }};", plus.iter().map(|f| mk(f)).collect::<Vec<_>>().join(", ")).unwrap();
            writeln!(s, "            let cell = std::panic::AssertUnwindSafe(std::cell::RefCell::new(Some(plus))); let cell = &cell;").unwrap();
            writeln!(s, "            let out = truc_runtime::convert::convert_vec_in_place::<CappedRecord{v}<CAP>, CappedRecord{n}<CAP>, _>(vec![from], |rec, _| truc_runtime::convert::VecElementConversionResult::Converted(CappedRecord{n}::<CAP>::from((rec, cell.borrow_mut().take().unwrap()))));").unwrap();
            writeln!(s, "            let r = out.into_iter().next().unwrap();").unwrap();
            for f in &minus {
                writeln!(s, "            st.init[s].remove(&{});", f.fid).unwrap();
            }
            for f in &plus {
                writeln!(s, "            st.init[s].insert({});", f.fid).unwrap();
            }
            writeln!(s, "            st.slots[s] = Rec::V{n}(Place::new(r, place)); }} }}").unwrap();
        }
        if has_clone {
            writeln!(s, "        (\"clone\", {v}) => {{ let c = if let Rec::V{v}(p) = &st.slots[s] {{ p.get().clone() }} else {{ unreachable!() }};").unwrap();
            writeln!(s, "            st.init[1 - s] = st.init[s].clone(); st.slots[1 - s] = Rec::V{v}(Place::new(c, place)); }}").unwrap();
            writeln!(s, "        (\"clone_from\", {v}) => {{ let (a, b) = st.slots.split_at_mut(1); let (dst, src) = if s == 0 {{ (&mut b[0], &a[0]) }} else {{ (&mut a[0], &b[0]) }};").unwrap();
            writeln!(s, "            if let (Rec::V{v}(d), Rec::V{v}(sr)) = (dst, src) {{ d.get_mut().clone_from(sr.get()); }} else {{ panic!(\"clone_from: variants differ\") }}").unwrap();
            writeln!(s, "            st.init[1 - s] = st.init[s].clone(); }}").unwrap();
            // clone assignment with a panic in the k-th field clone, then the target is destroyed
            writeln!(s, "        (\"clone_from_panic\", {v}) => {{ {{ let (a, b) = st.slots.split_at_mut(1); let (dst, src) = if s == 0 {{ (&mut b[0], &a[0]) }} else {{ (&mut a[0], &b[0]) }};").unwrap();
            writeln!(s, "            if let (Rec::V{v}(d), Rec::V{v}(sr)) = (dst, src) {{ lab_types::arm_clone_panic(op[\"k\"].as_i64().unwrap()); let _ = std::panic::catch_unwind(std::panic::AssertUnwindSafe(|| d.get_mut().clone_from(sr.get()))); lab_types::arm_clone_panic(-1); }} else {{ panic!(\"clone_from: variants differ\") }} }}").unwrap();
            writeln!(s, "            st.slots[1 - s] = Rec::None; st.init[1 - s].clear(); }}").unwrap();
        }
        if has_serde {
            writeln!(s, "        (\"ser\", {v}) => {{ if let Rec::V{v}(p) = &st.slots[s] {{ st.enc = encode(p.get(), op[\"fmt\"].as_str().unwrap()); out(st.enc.iter().map(|x| json!(x)).collect()); }} }}").unwrap();
            writeln!(s, "        (\"de\", {v}) => {{ match decode::<CappedRecord{v}<CAP>>(&mutate(&st.enc, op), op[\"fmt\"].as_str().unwrap()) {{ Ok(r) => {{ st.slots[s] = Rec::V{v}(Place::new(r, place)); st.init[s] = [{all_ids}].into_iter().collect(); }} Err(e) => fail(&e) }} }}").unwrap();
        }
        writeln!(s, "        (\"move\", {v}) => {{ if let Rec::V{v}(p) = std::mem::replace(&mut st.slots[s], Rec::None) {{ st.slots[s] = Rec::V{v}(Place::new(p.into_inner(), place)); }} }}").unwrap();
    }
    writeln!(s, "        (\"drop\", _) => {{ st.slots[s] = Rec::None; st.init[s].clear(); }}").unwrap();
    writeln!(s, "        (\"arm_clone_panic\", _) => {{ lab_types::arm_clone_panic(op[\"k\"].as_i64().unwrap()); }}").unwrap();
    writeln!(s, "        (n, v) => panic!(\"driver: operation {{}} not available on variant {{}}\", n, v),").unwrap();
    writeln!(s, "    }}\n}}").unwrap();
    s
}

fn main() {
    let args: Vec<String> = std::env::args().collect();
    if args.len() < 3 {
        eprintln!("usage: genlab_gen <defs.ndjson> <out_dir>");
        std::process::exit(2);
    }
    std::panic::set_hook(Box::new(|_| {}));
    if args[1] == "--probe" {
        probe_mode(&args[2], &args[3]);
        return;
    }
    let out_dir = &args[2];
    std::fs::create_dir_all(out_dir).unwrap();
    let input = BufReader::new(File::open(&args[1]).expect("defs"));
    let mut modrs = String::new();
    let mut dispatch_run = String::new();
    let mut dispatch_desc = String::new();
    let mut report = Vec::new();
    let compile_dir = args.get(3).cloned();
    let mut compile_all = String::new();
    for line in input.lines() {
        let line = line.unwrap();
        if line.trim().is_empty() {
            continue;
        }
        let d: Value = serde_json::from_str(&line).expect("def json");
        let k = d["did"].as_u64().unwrap() as usize;
        let frags: Vec<String> = d["fragments"].as_array().map_or(vec![], |a| a.iter().map(|x| x.as_str().unwrap().to_owned()).collect());
        let res = catch_unwind(AssertUnwindSafe(|| {
            let built = build(&d);
            let mut custom: Vec<Box<dyn FragmentGenerator>> = Vec::new();
            if frags.iter().any(|f| f == "clone") {
                custom.push(Box::new(CloneImplGenerator));
            }
            if frags.iter().any(|f| f == "serde") {
                custom.push(Box::new(SerdeImplGenerator));
            }
            let code = generate(&built.def, &GeneratorConfig::default_with_custom_generators(custom));
            (built, code)
        }));
        let (built, code) = match res {
            Ok(x) => x,
            Err(_) => {
                report.push(json!({"did": k, "status": "panic-in-builder-or-generator"}));
                continue;
            }
        };
        // C13: the same definition with every selection of the optional fragments
        if let Some(cd) = &compile_dir {
            for sel in 0..4usize {
                let code = catch_unwind(AssertUnwindSafe(|| {
                    let mut custom: Vec<Box<dyn FragmentGenerator>> = Vec::new();
                    if sel & 1 == 1 {
                        custom.push(Box::new(CloneImplGenerator));
                    }
                    if sel & 2 == 2 {
                        custom.push(Box::new(SerdeImplGenerator));
                    }
                    generate(&built.def, &GeneratorConfig::default_with_custom_generators(custom))
                }));
                if let Ok(code) = code {
                    File::create(format!("{}/c{}_{}_gen.rs", cd, k, sel)).unwrap().write_all(code.as_bytes()).unwrap();
                    writeln!(compile_all, "pub mod c{k}_{sel} {{ include!(\"c{k}_{sel}_gen.rs\"); }}").unwrap();
                }
            }
        }
        let variants: Vec<Vec<Field>> = built.def.variants().map(|v| fields_of(&built, v.data_sorted())).collect();
        let mut prev: Vec<usize> = Vec::new();
        let vj: Vec<Value> = variants
            .iter()
            .enumerate()
            .map(|(i, fs)| {
                let cur: Vec<usize> = fs.iter().map(|f| f.fid).collect();
                let plus: Vec<usize> = cur.iter().filter(|x| !prev.contains(x)).cloned().collect();
                let minus: Vec<usize> = prev.iter().filter(|x| !cur.contains(x)).cloned().collect();
                prev = cur;
                json!({"v": i + 1, "fields": fs.iter().map(field_json).collect::<Vec<_>>(), "plus": plus, "minus": minus})
            })
            .collect();
        let (cap, aligns) = {
            let mut cap = -1i64;
            let mut aligns = Vec::new();
            for l in code.lines() {
                let l = l.trim();
                if let Some(r) = l.strip_prefix("pub const MAX_SIZE: usize = ") {
                    cap = r.trim_end_matches(';').parse().unwrap_or(-1);
                }
                if let Some(r) = l.strip_prefix("#[repr(align(") {
                    aligns.push(r.trim_end_matches("))]").parse::<i64>().unwrap_or(-1));
                }
            }
            (cap, aligns)
        };
        let dj = json!({"did": k, "variants": vj, "pub_cap": cap, "pub_aligns": aligns, "fragments": frags,
            "max_size": built.def.max_size(), "max_align": built.def.max_type_align()});
        File::create(format!("{}/d{}_gen.rs", out_dir, k)).unwrap().write_all(code.as_bytes()).unwrap();
        File::create(format!("{}/d{}.json", out_dir, k)).unwrap().write_all(dj.to_string().as_bytes()).unwrap();
        let drv = driver(k, &variants, frags.iter().any(|f| f == "clone"), frags.iter().any(|f| f == "serde"), d["no_out"].as_bool().unwrap_or(false));
        File::create(format!("{}/d{}_drv.rs", out_dir, k)).unwrap().write_all(drv.as_bytes()).unwrap();
        writeln!(modrs, "#[path = \"d{k}_drv.rs\"] pub mod d{k};").unwrap();
        writeln!(dispatch_run, "        ({k}, 0) => d{k}::run::<{{ d{k}::gen::MAX_SIZE }}>(ops),\n        ({k}, 1) => d{k}::run::<{{ d{k}::gen::MAX_SIZE + 1 }}>(ops),\n        ({k}, 2) => d{k}::run::<{{ d{k}::gen::MAX_SIZE + 8 }}>(ops),").unwrap();
        writeln!(dispatch_desc, "        ({k}, 0) => d{k}::describe::<{{ d{k}::gen::MAX_SIZE }}>(),\n        ({k}, 1) => d{k}::describe::<{{ d{k}::gen::MAX_SIZE + 1 }}>(),\n        ({k}, 2) => d{k}::describe::<{{ d{k}::gen::MAX_SIZE + 8 }}>(),").unwrap();
        report.push(json!({"did": k, "status": "ok", "variants": variants.len(), "cap": cap}));
    }
    writeln!(modrs, "pub fn run(did: u64, capsel: u64, ops: &[serde_json::Value]) {{\n    match (did, capsel) {{\n{}        _ => panic!(\"no such definition\"),\n    }}\n}}", dispatch_run).unwrap();
    writeln!(modrs, "pub fn describe(did: u64, capsel: u64) -> serde_json::Value {{\n    match (did, capsel) {{\n{}        _ => panic!(\"no such definition\"),\n    }}\n}}", dispatch_desc).unwrap();
    File::create(format!("{}/mod.rs", out_dir)).unwrap().write_all(modrs.as_bytes()).unwrap();
    if let Some(cd) = &compile_dir {
        File::create(format!("{}/compile_all.rs", cd)).unwrap().write_all(compile_all.as_bytes()).unwrap();
    }
    println!("{}", Value::Array(report));
}
