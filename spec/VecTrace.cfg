SPECIFICATION TraceSpec
CONSTANTS
  VQuirks = {}
INVARIANT Report
POSTCONDITION TraceAccepted
CHECK_DEADLOCK FALSE
