SPECIFICATION Spec
CONSTANTS
  Quirks = {}
  Kind = "native"
  ShapeSet = "wide"
  Strategies = {"simple", "basic", "append", "append_rev"}
  NameMode = "fresh"
  NamePool = 0
  Uninits = {FALSE}
  AllowBad = FALSE
  MaxData = 5
  MaxVariants = 4
  MaxAddsPerVariant = 4
  CheckConvert = FALSE
VIEW ViewCurrent
INVARIANTS TypeOK NoOverlap Placed Aligned NonZstStrictlyIncreasing WithinCapacity RecordAlignCoversAll AddressOrdered IdsNeverReused NamesUniquePerVariant TotalOnAccepted ConvertInv
PROPERTIES NeverMoves Frame VariantMembership NoopCloseCreatesNothing
CHECK_DEADLOCK FALSE
