------------------------------ MODULE MCRecord ------------------------------
(***************************************************************************)
(* Model checking of the generated-code layer on the composition           *)
(*    builder layout (Layout.tla)  ->  templates (Record.tla)  ->  bytes.  *)
(*                                                                         *)
(* The initial states enumerate small two-variant definitions: the fields  *)
(* of the first variant, the subset removed, the fields added, the closing *)
(* strategy of each variant; offsets come from the transcribed strategies, *)
(* so the definitions are the ones the builder model produces.  From each, *)
(* TLC explores every sequence of interface operations on one record       *)
(* (construct fully / from mandatory fields, write a field, convert with   *)
(* each of the four forms, unpack, drop).  Every operation executes the    *)
(* generator's template primitive by primitive on the extents of the       *)
(* buffer, under the safety guards of Record.tla.                          *)
(*                                                                         *)
(* RQuirks: deliberately wrong templates, used only to show that the model *)
(* notices them ("writes_first": added fields written before the removed   *)
(* ones are read; "drop_skips_last": Drop forgets the last field;          *)
(* "no_forget": unpack without mem::forget, so Drop runs afterwards).      *)
(***************************************************************************)
EXTENDS Record, Layout

CONSTANTS KindNames, Strats, RQuirks, MaxOps

Kind(k) ==
  CASE k = "T"  -> [size |-> 16, align |-> 8, drop |-> TRUE,  uninit |-> FALSE]
    [] k = "B"  -> [size |-> 32, align |-> 8, drop |-> TRUE,  uninit |-> FALSE]
    [] k = "D3" -> [size |-> 12, align |-> 4, drop |-> TRUE,  uninit |-> FALSE]
    [] k = "P"  -> [size |-> 4,  align |-> 4, drop |-> FALSE, uninit |-> FALSE]
    [] k = "Pu" -> [size |-> 4,  align |-> 4, drop |-> FALSE, uninit |-> TRUE]
    [] k = "O"  -> [size |-> 3,  align |-> 1, drop |-> FALSE, uninit |-> TRUE]
    [] k = "Z"  -> [size |-> 0,  align |-> 1, drop |-> FALSE, uninit |-> FALSE]
    [] k = "ZD" -> [size |-> 0,  align |-> 1, drop |-> TRUE,  uninit |-> FALSE]
    [] k = "W"  -> [size |-> 16, align |-> 16, drop |-> FALSE, uninit |-> TRUE]

VARIABLES
  def,     \* the definition under test (Record.tla format)
  rec,     \* <<>> or [v, vals]: the abstract record; vals: fid -> value id
  ext,     \* extents of its buffer, each with the id of the value stored
  st,      \* value id -> "rec" | "caller" | "dead"
  dcount,  \* value id -> number of destructions
  viol,    \* guards violated so far (must stay empty)
  nops

mvars == <<def, rec, ext, st, dcount, viol, nops>>

SeqsUpTo(S, n) == UNION {[1..m -> S] : m \in 0..n}

(* build the definition from (kinds of variant 1, strategy, removed subset, kinds added, strategy) *)
MkDefs(k1, s1, rm, k2, s2) ==
  LET n1 == Len(k1)  n2 == Len(k2)
      d0 == [i \in 1..(n1 + n2) |->
               LET k == Kind(IF i <= n1 THEN k1[i] ELSE k2[i - n1]) IN
               [name |-> i, size |-> k.size, align |-> k.align, uninit |-> k.uninit, off |-> UNSET]]
      r1 == NativeStrategy(s1, <<>>, d0, [i \in 1..n1 |-> i])
      kept == Without(r1[1], rm)
      r2 == NativeStrategy(s2, kept, r1[2], [i \in 1..n2 |-> n1 + i])
      d == r2[2]
      kindOf(i) == Kind(IF i <= n1 THEN k1[i] ELSE k2[i - n1])
      fld(i) == [fid |-> i, off |-> d[i].off, size |-> d[i].size, align |-> d[i].align,
                 uninit |-> d[i].uninit, droppable |-> kindOf(i).drop]
      ids1 == SortedSeq(SeqToSet(r1[1]))
      ids2 == SortedSeq(SeqToSet(r2[1]))
  IN [variants |-> << [fields |-> [j \in DOMAIN ids1 |-> fld(ids1[j])], plus |-> ids1, minus |-> <<>>],
                      [fields |-> [j \in DOMAIN ids2 |-> fld(ids2[j])],
                       plus |-> [i \in 1..n2 |-> n1 + i], minus |-> SortedSeq(rm)] >>,
      lists |-> <<r1[1], r2[1]>>, d |-> d]

Init ==
  /\ \E k1 \in SeqsUpTo(KindNames, 2), s1 \in Strats, k2 \in SeqsUpTo(KindNames, 2), s2 \in Strats :
       \E rm \in SUBSET (1..Len(k1)) :
          def = MkDefs(k1, s1, rm, k2, s2)
  /\ rec = <<>> /\ ext = {} /\ st = <<>> /\ dcount = <<>> /\ viol = {} /\ nops = 0

Fresh(n) == [i \in 1..n |-> Len(st) + i]       \* n new value ids
Grow(f, ids, x) == [i \in 1..(Len(f) + Len(ids)) |-> IF i <= Len(f) THEN f[i] ELSE x]

(* one primitive on the extents; returns [ext, viol, got] *)
Prim(s, k, f, val) ==     \* s: [ext, viol, got]; f: field record; val: value id written
  IF k = "skip" THEN s
  ELSE IF k = "write" THEN
     [ext |-> {x \in s.ext : ~Overlaps(x, f.off, f.size) /\ x.fid # f.fid}
              \cup {[off |-> f.off, size |-> f.size, fid |-> f.fid, droppable |-> f.droppable, val |-> val]},
      viol |-> s.viol \cup (IF WriteOk(s.ext, f.off, f.size) THEN {} ELSE {"store-on-owned-value"}),
      got |-> s.got]
  ELSE \* read
     LET hit == {x \in s.ext : x.off = f.off /\ x.size = f.size /\ x.fid = f.fid} IN
     [ext |-> IF f.droppable THEN s.ext \ hit ELSE s.ext,
      viol |-> s.viol \cup (IF ReadOk(s.ext, f.off, f.size, f.fid, f.droppable) THEN {} ELSE {"read-of-absent-value"}),
      got |-> IF hit = {} THEN s.got ELSE s.got \cup {<<f.fid, (CHOOSE x \in hit : TRUE).val>>}]

RECURSIVE RunTpl(_, _, _, _)
RunTpl(s, tpl, v, given) ==      \* tpl: sequence of [k, fid]; v: variant the fields belong to
  IF tpl = <<>> THEN s
  ELSE LET t == Head(tpl)
           f == Field(def, v, t.fid)
       IN RunTpl(Prim(s, t.k, f, IF t.fid \in DOMAIN given THEN given[t.fid] ELSE 0), Tail(tpl), v, given)

Destroy(ids) ==
  /\ st' = [i \in DOMAIN st |-> IF i \in ids THEN "dead" ELSE st[i]]
  /\ dcount' = [i \in DOMAIN dcount |-> IF i \in ids THEN dcount[i] + 1 ELSE dcount[i]]

(* construct: values are created by the caller, then the template stores them *)
New(v, full) ==
  /\ rec = <<>> /\ nops < MaxOps
  /\ LET F == IF full THEN FidsOf(def, v) ELSE Mandatory(def, v)
         fs == SortedSeq(F)
         ids == Fresh(Len(fs))
         given == [fid \in F |-> ids[CHOOSE j \in DOMAIN fs : fs[j] = fid]]
         r == RunTpl([ext |-> {}, viol |-> viol, got |-> {}], TplNew(def, v, F), v, given)
     IN /\ rec' = [v |-> v, vals |-> given]
        /\ ext' = r.ext /\ viol' = r.viol
        /\ st' = Grow(st, ids, "rec") /\ dcount' = Grow(dcount, ids, 0)
  /\ nops' = nops + 1 /\ UNCHANGED def

SetField(f) ==      \* *rec.f_mut() = new value: the old value (if any) is destroyed once
  /\ rec # <<>> /\ nops < MaxOps /\ f \in FidsOf(def, rec.v)
  /\ LET fld == Field(def, rec.v, f)
         id == Len(st) + 1
         old == IF f \in DOMAIN rec.vals THEN {rec.vals[f]} ELSE {}
         refok == RefOk(ext, fld.off, fld.size, f, fld.droppable)
     IN /\ rec' = [rec EXCEPT !.vals = [x \in (DOMAIN rec.vals) \cup {f} |-> IF x = f THEN id ELSE rec.vals[x]]]
        /\ ext' = {x \in ext : x.fid # f} \cup
                  {[off |-> fld.off, size |-> fld.size, fid |-> f, droppable |-> fld.droppable, val |-> id]}
        /\ viol' = viol \cup (IF refok THEN {} ELSE {"reference-to-absent-value"})
        /\ st' = [i \in 1..id |-> IF i = id THEN "rec" ELSE IF i \in old THEN "dead" ELSE st[i]]
        /\ dcount' = [i \in 1..id |-> IF i = id THEN 0 ELSE IF i \in old THEN dcount[i] + 1 ELSE dcount[i]]
  /\ nops' = nops + 1 /\ UNCHANGED def

ReadAll(drop_skips) ==
  LET tpl == TplReadAll(def, rec.v)
      tpl2 == IF drop_skips /\ tpl # <<>> THEN SubSeq(tpl, 1, Len(tpl) - 1) ELSE tpl
  IN RunTpl([ext |-> ext, viol |-> viol, got |-> {}], tpl2, rec.v, <<>>)

DropRecord ==
  /\ rec # <<>> /\ nops < MaxOps
  /\ LET r == ReadAll("drop_skips_last" \in RQuirks)
         gone == {p[2] : p \in {q \in r.got : Field(def, rec.v, q[1]).droppable \/ TRUE}} IN
     /\ Destroy(gone \cap {rec.vals[f] : f \in DOMAIN rec.vals})
     /\ viol' = r.viol \cup (IF \E x \in r.ext : x.droppable THEN {"dropped-while-owning-a-value"} ELSE {})
     /\ ext' = {}
  /\ rec' = <<>> /\ nops' = nops + 1 /\ UNCHANGED def

Unpack ==        \* every value goes to the caller; the record is forgotten
  /\ rec # <<>> /\ nops < MaxOps
  /\ LET r == ReadAll(FALSE)
         outs == {rec.vals[f] : f \in DOMAIN rec.vals} IN
     /\ IF "no_forget" \in RQuirks
        THEN \* Drop runs on the record as well: the values are read (destroyed) a second time
             /\ st' = [i \in DOMAIN st |-> IF i \in outs THEN "dead" ELSE st[i]]
             /\ dcount' = [i \in DOMAIN dcount |-> IF i \in outs THEN dcount[i] + 2 ELSE dcount[i]]
        ELSE /\ st' = [i \in DOMAIN st |-> IF i \in outs THEN "caller" ELSE st[i]]
             /\ UNCHANGED dcount
     /\ viol' = r.viol
                \cup (IF \E x \in r.ext : x.droppable THEN {"forgotten-while-owning-a-value"} ELSE {})
                \cup (IF {p \in r.got : p[1] \in DOMAIN rec.vals} = {<<f, rec.vals[f]>> : f \in DOMAIN rec.vals}
                      THEN {} ELSE {"unpack-returned-other-values"})
     /\ ext' = {}
  /\ rec' = <<>> /\ nops' = nops + 1 /\ UNCHANGED def

Convert(full, out) ==
  /\ rec # <<>> /\ rec.v + 1 \in DOMAIN def.variants /\ nops < MaxOps
  /\ LET v == rec.v
         F == IF full THEN PlusOf(def, v + 1) ELSE MandatoryPlus(def, v + 1)
         fs == SortedSeq(F)
         ids == Fresh(Len(fs))
         given == [fid \in F |-> ids[CHOOSE j \in DOMAIN fs : fs[j] = fid]]
         s0 == [ext |-> ext, viol |-> viol, got |-> {}]
         r == IF "writes_first" \in RQuirks
              THEN RunTpl(RunTpl(s0, TplConvertWrites(def, v, F), v + 1, given), TplConvertReads(def, v), v, <<>>)
              ELSE RunTpl(RunTpl(s0, TplConvertReads(def, v), v, <<>>), TplConvertWrites(def, v, F), v + 1, given)
         rem == RemovedVals(def, v, rec.vals)
         remIds == {rem[f] : f \in DOMAIN rem}
         gotIds == {p[2] : p \in r.got}
         newvals == ConvertVals(def, v, rec.vals, given)
     IN /\ rec' = [v |-> v + 1, vals |-> newvals]
        /\ ext' = r.ext
        /\ viol' = r.viol \cup (IF {p \in r.got : p[1] \in DOMAIN rem} = {<<f, rem[f]>> : f \in DOMAIN rem}
                                THEN {} ELSE {"removed-values-not-all-read-back"})
        /\ LET st1 == Grow(st, ids, "rec")  dc1 == Grow(dcount, ids, 0) IN
           IF out THEN /\ st' = [i \in DOMAIN st1 |-> IF i \in remIds THEN "caller" ELSE st1[i]]
                       /\ dcount' = dc1
           ELSE /\ st' = [i \in DOMAIN st1 |-> IF i \in remIds \cap gotIds THEN "dead" ELSE st1[i]]
                /\ dcount' = [i \in DOMAIN dc1 |-> IF i \in remIds \cap gotIds THEN dc1[i] + 1 ELSE dc1[i]]
  /\ nops' = nops + 1 /\ UNCHANGED def

Next ==
  \/ \E v \in DOMAIN def.variants, full \in BOOLEAN : New(v, full)
  \/ \E f \in 1..8 : SetField(f)
  \/ DropRecord \/ Unpack
  \/ \E full \in BOOLEAN, out \in BOOLEAN : Convert(full, out)

Spec == Init /\ [][Next]_mvars

------------------------------------------------------------------------------
\* the builder's side of the contract holds for the enumerated definitions
LayoutOk == \A v \in 1..2 : /\ NoOverlapIn(def.lists[v], def.d) /\ AlignedIn(def.lists[v], def.d)
\* C07: no primitive ever violated its guard
NoGuardViolation == viol = {}
\* C04 / C05 at the byte level: the buffer stores exactly the values the interface says
Link ==
  rec # <<>> =>
     /\ \A f \in DOMAIN rec.vals :
          LET fld == Field(def, rec.v, f) IN
          \E x \in ext : x.fid = f /\ x.off = fld.off /\ x.size = fld.size /\ x.val = rec.vals[f]
     /\ \A x \in ext : x.droppable => (x.fid \in DOMAIN rec.vals /\ rec.vals[x.fid] = x.val)
\* C06
DestroyedAtMostOnce == \A i \in DOMAIN dcount : dcount[i] <= 1
LedgerConsistent ==
  /\ \A i \in DOMAIN st : (st[i] = "dead") <=> (dcount[i] >= 1)
  /\ \A i \in DOMAIN st : (st[i] = "rec") <=> (rec # <<>> /\ \E f \in DOMAIN rec.vals : rec.vals[f] = i)
NothingLeakedAtQuiescence == rec = <<>> => \A i \in DOMAIN st : st[i] \in {"dead", "caller"}
\* C03 (second sentence): one size and alignment whatever the variant (by construction of the
\* generated types: a CAP-byte buffer under one repr(align)); C07: capacity and alignment cover all
CapOf == LET ends == {def.d[i].off + def.d[i].size : i \in UNION {SeqToSet(def.lists[v]) : v \in 1..2}} IN
         IF ends = {} THEN 0 ELSE CHOOSE m \in ends : \A x \in ends : x <= m
FitsPublishedCapacity == \A v \in 1..2 : \A f \in Range(FieldsOf(def, v)) : f.off + f.size <= CapOf
=============================================================================
