------------------------------- MODULE TypeTrace -------------------------------
(* Validates the event stream of harness/types_lab (real resolvers, real      *)
(* table, types enumerated by MCTypeName) and the rustc verdicts of           *)
(* harness/types_probe against TypeTable.tla / TypeName.tla.                  *)
EXTENDS TypeTable, Json, IOUtils
Rec == ndJsonDeserialize(IOEnv.TRACE)
VARIABLES l, bad
tvars == <<table, host, l, bad>>
e == Rec[l]
If(c, t) == IF c THEN {t} ELSE {}
Consume(tags) == l' = l + 1 /\ bad' = bad \cup {[tag |-> t, id |-> (IF "id" \in DOMAIN e THEN e.id ELSE 0), line |-> l] : t \in tags}

TraceInit == TTInit /\ l = 1 /\ bad = {}

TraceType ==     \* the host resolver's answer for an enumerated type
  /\ e.ev = "type"
  /\ host' = [x \in (DOMAIN host) \cup {e.id} |-> IF x = e.id THEN [size |-> e.size, align |-> e.align] ELSE host[x]]
  /\ UNCHANGED table /\ Consume({})

TraceRegister ==
  /\ e.ev = "register"
  /\ UNCHANGED host
  /\ IF e.res = "ok"
     THEN /\ DoRegister(e.id, Info(host[e.id].size, host[e.id].align, FALSE))
          /\ Consume(If(~CanRegister(e.id), "C18:second-registration-of-a-type-accepted"))
     ELSE /\ UNCHANGED table
          /\ Consume(If(CanRegister(e.id), "C18:first-registration-of-a-type-rejected"))

TraceLookup ==
  /\ e.ev = "lookup"
  /\ UNCHANGED <<table, host>>
  /\ LET ok == LookupOk(e.id, e.phase, e.hit, e.size, e.align, e.uninit, e.kind) IN
     Consume(If(~ok /\ e.kind = "dynamic" /\ ~e.hit,
                "C17:lookup-by-name-misses-a-registered-type-for-some-spelling")
        \cup If(~ok /\ e.kind = "dynamic" /\ e.hit, "C18:table-answer-by-name-differs-from-what-was-registered")
        \cup If(~ok /\ e.kind = "typed" /\ e.phase = "reloaded", "C18:table-answer-differs-after-the-json-round-trip")
        \cup If(~ok /\ e.kind = "typed" /\ e.phase # "reloaded", "C18:table-answer-differs-from-what-was-registered")
        \cup If(~ok /\ e.kind = "builder", "C18:layout-under-a-table-does-not-use-the-tables-answers"))

TraceStd ==      \* the standard table against the host, before / after the JSON round trip, doctored
  /\ e.ev = "std"
  /\ UNCHANGED <<table, host>>
  /\ LET want == IF e.phase = "std-doctored" THEN <<e.hsize + 8, e.halign * 2>> ELSE <<e.hsize, e.halign>> IN
     Consume(If(~e.hit \/ ~e.dhit, "C18:standard-table-lacks-one-of-its-own-types")
        \cup If(e.hit /\ <<e.tsize, e.talign>> # want,
                IF e.phase = "std" THEN "C18:standard-table-disagrees-with-the-host-resolver"
                ELSE IF e.phase = "std-reloaded" THEN "C18:table-answer-differs-after-the-json-round-trip"
                ELSE "C18:table-answer-differs-from-what-was-registered")
        \cup If(e.dhit /\ <<e.dsize, e.dalign>> # want, "C18:table-answer-by-name-differs-from-what-was-registered"))

TraceProbe ==    \* rustc's verdict on `fn(T) -> <recorded name>`
  /\ e.ev = "probe"
  /\ UNCHANGED <<table, host>>
  /\ Consume(If(~e.ok, "C17:recorded-name-does-not-denote-the-type-in-generated-code"))

TraceOther ==
  /\ e.ev \in {"reload", "doctor"}
  /\ UNCHANGED <<table, host>> /\ Consume({})

TraceNext == l <= Len(Rec) /\ (TraceType \/ TraceRegister \/ TraceLookup \/ TraceStd \/ TraceProbe \/ TraceOther)
TraceSpec == TraceInit /\ [][TraceNext]_tvars
Report == (l = Len(Rec) + 1) => PrintT(<<"VERDICT", ToJson([consumed |-> l - 1, total |-> Len(Rec), bad |-> bad])>>)
TraceAccepted ==
  LET d == TLCGet("stats").diameter IN
  IF d - 1 = Len(Rec) THEN TRUE ELSE PrintT(<<"UNMATCHED", d>>) /\ FALSE
=============================================================================
