SPECIFICATION RSpec
CONSTANTS
  Quirks = {}
  Kind = "native"
  ShapeSet = "replay"
  Strategies = {"simple", "basic", "append", "append_rev"}
  NameMode = "fresh"
  NamePool = 0
  Uninits = {FALSE}
  AllowBad = FALSE
  MaxData = 3
  MaxVariants = 2
  MaxAddsPerVariant = 3
  CheckConvert = FALSE
INVARIANT Emit
CHECK_DEADLOCK FALSE
