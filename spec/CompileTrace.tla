----------------------------- MODULE CompileTrace -----------------------------
(* Validates the compiler's verdicts on really generated modules (one event  *)
(* per case: what was recorded, whether rustc accepted the module) against    *)
(* Codegen!CompileVerdict.  Each perturbed case is paired with its            *)
(* unperturbed twin, which must compile (otherwise a rejection for an         *)
(* unrelated reason could pass for a detection).                              *)
EXTENDS Codegen, IOUtils
Rec == ndJsonDeserialize(IOEnv.TRACE)
VARIABLES l, bad
e == Rec[l]
If(cnd, t) == IF cnd THEN {t} ELSE {}
TraceInit == l = 1 /\ bad = {}
Twin(x) == {Rec[i] : i \in {j \in DOMAIN Rec : Rec[j].key = x.key /\ Rec[j].where = x.where /\ Rec[j].twin = x.twin /\ Rec[j].life = x.life /\ Rec[j].pert = "none"}}
TraceCase ==
  /\ l <= Len(Rec)
  /\ l' = l + 1
  /\ LET must == CompileVerdict(e.key, e.rsize, e.ralign, e.runinit)
         twinOk == \A t \in Twin(e) : t.compiled
         tags == If(must /\ ~e.compiled, "C13:correct-definition-rejected-by-the-compiler")
                 \cup If(~must /\ e.compiled /\ e.rsize # Palette[e.key][1], "C11:wrong-recorded-size-accepted-by-the-compiler")
                 \cup If(~must /\ e.compiled /\ e.ralign # Palette[e.key][2], "C11:wrong-recorded-alignment-accepted-by-the-compiler")
                 \cup If(~must /\ e.compiled /\ e.runinit /\ ~Palette[e.key][3], "C11:uninitialisable-non-Copy-datum-accepted-by-the-compiler")
                 \cup If(~must /\ ~e.compiled /\ ~twinOk, "H:unperturbed-twin-does-not-compile")
     IN bad' = bad \cup {[tag |-> t, case |-> e.id, line |-> l] : t \in tags}
TraceSpec == TraceInit /\ [][TraceCase]_<<l, bad>>
Report == (l = Len(Rec) + 1) => PrintT(<<"VERDICT", ToJson([consumed |-> l - 1, total |-> Len(Rec), bad |-> bad])>>)
TraceAccepted == TLCGet("stats").diameter - 1 = Len(Rec)
=============================================================================
