SPECIFICATION TraceSpec
INVARIANT Report
POSTCONDITION TraceAccepted
CHECK_DEADLOCK FALSE
