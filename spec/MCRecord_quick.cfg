SPECIFICATION Spec
CONSTANTS
  Quirks = {}
  RQuirks = {}
  KindNames = {"T", "Pu", "O", "Z"}
  Strats = {"simple", "basic"}
  MaxOps = 4
INVARIANTS LayoutOk NoGuardViolation Link DestroyedAtMostOnce LedgerConsistent NothingLeakedAtQuiescence FitsPublishedCapacity
CHECK_DEADLOCK FALSE
