------------------------------ MODULE MCCompile ------------------------------
(* Enumerates the C11 case matrix: one behaviour per case, one REPLAY line   *)
(* per case with the verdict CompileVerdict demands.                         *)
EXTENDS Codegen
VARIABLE c
Init == c = <<>>
Pick == /\ c = <<>>
        /\ \E x \in Cases : Applicable(x.key, x.pert) /\ c' = x
Spec == Init /\ [][Pick]_c
Emit == (c # <<>>) =>
  LET r == Recorded(c.key, c.pert) IN
  PrintT(<<"REPLAY", ToJson([key |-> c.key, where |-> c.where, pert |-> c.pert, twin |-> c.twin, life |-> c.life,
                             rsize |-> r[1], ralign |-> r[2], runinit |-> r[3],
                             size |-> Palette[c.key][1], align |-> Palette[c.key][2], copy |-> Palette[c.key][3],
                             must_compile |-> CompileVerdict(c.key, r[1], r[2], r[3])])>>)
=============================================================================
