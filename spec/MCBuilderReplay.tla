--------------------------- MODULE MCBuilderReplay ---------------------------
(* Replay generation: the bounded builder model with a history variable.    *)
(* One line "REPLAY <json>" is printed per behaviour that ends in a build   *)
(* (accepted or rejected): the calls with their predicted results and the   *)
(* final variants / offsets predicted by the concrete model.  The harness   *)
(* replays every line into the real builders.                               *)
EXTENDS MCBuilderCfg
VARIABLE hist
rvars == <<bvars, hist>>
RInit == MCInit /\ hist = <<>>
RNext == /\ last.op # "build"
         /\ Next
         /\ hist' = Append(hist, last')
RSpec == RInit /\ [][RNext]_rvars
Emit ==
  (last.op = "build") =>
     PrintT(<<"REPLAY", ToJson([kind |-> kind, calls |-> hist, variants |-> variants,
                                offs |-> [i \in DOMAIN defs |-> defs[i].off]])>>)
=============================================================================
