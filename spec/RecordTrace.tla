----------------------------- MODULE RecordTrace -----------------------------
(***************************************************************************)
(* Trace specification for generated record code: validates the event      *)
(* streams of harness/genlab_run (REAL generated modules compiled by       *)
(* rustc, driven by operation scripts) against Record.tla.                 *)
(*                                                                         *)
(* Events: `def` (the definition as the real builder produced it),         *)
(* `script` (start of a script: sizes / alignments / Send / Sync of the     *)
(* generated types), `begin` .. `end` around every operation, and inside:   *)
(* `make` / `clone` / `destroy` (value ledger of the instrumented field     *)
(* types), `out` (values handed back to the caller), `fail`, and - in       *)
(* builds with --cfg truc_verif - one `prim` event per call of the four     *)
(* unsafe primitives.  Same style as BuilderTrace: follow the               *)
(* implementation, judge every step, collect tags "<property>:<what>".      *)
(***************************************************************************)
EXTENDS Record, Json, IOUtils, Integers

Rec == ndJsonDeserialize(IOEnv.TRACE)
StoreIsAlignmentFree == IOEnv.STORE_UNALIGNED = "1"

VARIABLES
  l, bad, sid, dead,
  def,      \* current definition
  types,    \* size/align/send/sync of the generated types of the current script
  slots,    \* [1..2 -> <<>> or [v, vals]]
  st,       \* ledger: serial -> "caller" | "rec" | "dead"
  pay,      \* serial -> current payload
  zlive,    \* live values of the zero-size droppable type (no identity)
  op,       \* the operation in progress (its begin event) or <<>>
  made,     \* values created during the operation, in order: [serial, payload, key, from]
  outv,     \* what the operation handed out (`out` event), <<>> if nothing yet
  failed,   \* a `fail` event was seen in this operation
  ext,      \* [1..2 -> set of extents]: implementation-level view of the two slots' buffers
  tmp,      \* extents of the buffer under construction in this operation
  lastmut,  \* property the next value mismatch is attributed to
  enc,      \* the elements of the last serialisation, in order
  cap       \* capacity (CAP) the primitives report in this script

tvars == <<l, bad, sid, dead, def, types, slots, st, pay, zlive, op, made, outv, failed, ext, tmp, lastmut, enc, cap>>

e == Rec[l]
If(c, t) == IF c THEN {t} ELSE {}
Consume(tags) ==
  /\ l' = l + 1
  /\ bad' = bad \cup {[tag |-> t, sid |-> sid, line |-> l] : t \in tags}
Upd(f, k, v) == [x \in (DOMAIN f) \cup {k} |-> IF x = k THEN v ELSE f[x]]

TraceInit ==
  /\ l = 1 /\ bad = {} /\ sid = 0 /\ dead = TRUE
  /\ def = <<>> /\ types = <<>> /\ slots = <<<<>>, <<>>>> /\ st = <<>> /\ pay = <<>> /\ zlive = 0
  /\ op = <<>> /\ made = <<>> /\ outv = <<>> /\ failed = FALSE
  /\ ext = <<{}, {}>> /\ tmp = {} /\ lastmut = "C04" /\ enc = <<>> /\ cap = 0

------------------------------------------------------------------------------
TraceDef ==
  /\ e.ev = "def"
  /\ def' = e /\ dead' = TRUE
  /\ UNCHANGED <<sid, types, slots, st, pay, zlive, op, made, outv, failed, ext, tmp, lastmut, enc, cap>>
  /\ Consume(If(~FieldsFit(e, e.pub_cap), "C07:field-outside-the-published-capacity")
        \cup If(\E i \in DOMAIN e.pub_aligns : ~FieldsAligned(e, e.pub_aligns[i]),
                "C07:field-offset-or-record-alignment-does-not-fit-the-field-type"))

\* C03 (second sentence), C07 (alignment of the record types), C14 on the compiled types
TypeTags ==
  LET all == e.types
      ts == SelectSeq(all, LAMBDA t : t.v # 0)      \* the record types; v = 0 is RecordUninitialized
      n == Len(ts) IN
  If(\E i, j \in DOMAIN all : all[i].size # all[j].size \/ all[i].align # all[j].align,
     "C03:generated-record-types-differ-in-size-or-alignment-from-RecordUninitialized-or-each-other") \cup
  If(\E i, j \in 1..n : ts[i].size # ts[j].size, "C03:generated-record-types-differ-in-size")
  \cup If(\E i, j \in 1..n : ts[i].align # ts[j].align, "C03:generated-record-types-differ-in-alignment")
  \cup If(\E i \in 1..n : \E f \in Range(FieldsOf(def, i)) : ts[i].align % f.align # 0,
          "C07:record-type-less-aligned-than-one-of-its-fields")
  \cup If(\E i \in 1..n : ts[i].send /\ ~AutoSend(def, i), "C14:record-is-Send-although-a-field-is-not")
  \cup If(\E i \in 1..n : ts[i].sync /\ ~AutoSync(def, i), "C14:record-is-Sync-although-a-field-is-not")
  \cup If(\E i \in 1..n : ~ts[i].send /\ AutoSend(def, i), "C14:record-is-not-Send-although-all-fields-are")
  \cup If(\E i \in 1..n : ~ts[i].sync /\ AutoSync(def, i), "C14:record-is-not-Sync-although-all-fields-are")

TraceScript ==
  /\ e.ev = "script" /\ def # <<>>
  /\ sid' = e.sid /\ dead' = FALSE /\ types' = e.types
  /\ slots' = <<<<>>, <<>>>> /\ st' = <<>> /\ pay' = <<>> /\ zlive' = 0
  /\ op' = <<>> /\ made' = <<>> /\ outv' = <<>> /\ failed' = FALSE
  /\ ext' = <<{}, {}>> /\ tmp' = {} /\ lastmut' = "C04" /\ enc' = <<>> /\ cap' = 0
  /\ UNCHANGED def
  /\ l' = l + 1
  /\ bad' = bad \cup {[tag |-> t, sid |-> e.sid, line |-> l] : t \in TypeTags}

TraceSkip ==
  /\ dead /\ e.ev \notin {"def", "script"}
  /\ UNCHANGED <<bad, sid, dead, def, types, slots, st, pay, zlive, op, made, outv, failed, ext, tmp, lastmut, enc, cap>>
  /\ l' = l + 1

Rest == UNCHANGED <<sid, def, types>>

TraceBegin ==
  /\ ~dead /\ e.ev = "begin" /\ Rest
  \* the operation in progress remembers how many zero-size owned values were alive when it began
  /\ op' = [x \in (DOMAIN e) \cup {"zl"} |-> IF x = "zl" THEN zlive ELSE e[x]]
  /\ made' = <<>> /\ outv' = <<>> /\ failed' = FALSE /\ tmp' = {}
  /\ dead' = (op # <<>>)
  /\ UNCHANGED <<slots, st, pay, zlive, ext, lastmut, enc, cap>>
  /\ Consume(If(op # <<>>, "H:begin-inside-an-operation"))

------------------------------------------------------------------------------
(* value ledger *)
CurSlot == IF op # <<>> /\ op.slot \in {1, 2} THEN slots[op.slot] ELSE <<>>
OtherSlot == IF op # <<>> /\ op.slot \in {1, 2} THEN slots[3 - op.slot] ELSE <<>>
SerialsOf(rec) == IF rec = <<>> THEN {} ELSE {rec.vals[f].serial : f \in DOMAIN rec.vals} \ {0}
IsConvert == op # <<>> /\ op.op \in {"convert_full_simple", "convert_uninit_simple", "convert_full_out", "convert_uninit_out", "convert_vec"}
IsOutForm == op # <<>> /\ op.op \in {"convert_full_out", "convert_uninit_out"}
\* record-owned values the operation in progress may destroy
MayDie ==
  IF op = <<>> THEN {}
  ELSE CASE op.op = "drop" -> SerialsOf(CurSlot)
         [] op.op = "set" -> IF CurSlot # <<>> /\ op.f \in DOMAIN CurSlot.vals THEN {CurSlot.vals[op.f].serial} \ {0} ELSE {}
         [] op.op \in {"convert_full_simple", "convert_uninit_simple", "convert_vec"} ->
              {CurSlot.vals[f].serial : f \in (DOMAIN CurSlot.vals) \cap MinusOf(def, CurSlot.v + 1)} \ {0}
         [] op.op \in {"clone_from", "clone_from_panic"} -> SerialsOf(OtherSlot)
         [] OTHER -> {}

TraceMake ==
  /\ ~dead /\ e.ev = "make" /\ Rest
  /\ IF e.serial = 0
     THEN zlive' = zlive + 1 /\ UNCHANGED <<st, pay, made>>
     ELSE /\ st' = Upd(st, e.serial, "caller") /\ pay' = Upd(pay, e.serial, e.payload)
          /\ made' = Append(made, [serial |-> e.serial, payload |-> e.payload, key |-> e.key, from |-> 0])
          /\ UNCHANGED zlive
  /\ UNCHANGED <<dead, slots, op, outv, failed, ext, tmp, lastmut, enc, cap>>
  /\ Consume(If(e.serial # 0 /\ e.serial \in DOMAIN st, "H:serial-reused"))

TraceClone ==
  /\ ~dead /\ e.ev = "clone" /\ Rest
  /\ IF e.to = 0
     THEN zlive' = zlive + 1 /\ UNCHANGED <<st, pay, made>>
     ELSE /\ st' = Upd(st, e.to, "caller") /\ pay' = Upd(pay, e.to, e.payload)
          /\ made' = Append(made, [serial |-> e.to, payload |-> e.payload, key |-> e.key, from |-> e.from])
          /\ UNCHANGED zlive
  /\ UNCHANGED <<dead, slots, op, outv, failed, ext, tmp, lastmut, enc, cap>>
  /\ Consume(If(e.from # 0 /\ (e.from \notin DOMAIN st \/ st[e.from] = "dead"), "C16:clone-of-a-destroyed-value")
        \cup If(e.from # 0 /\ e.from \in DOMAIN pay /\ pay[e.from] # e.payload, "C16:clone-differs-from-its-source"))

TraceDestroy ==
  /\ ~dead /\ e.ev = "destroy" /\ Rest
  /\ UNCHANGED <<dead, slots, pay, op, made, outv, failed, ext, tmp, lastmut, enc, cap>>
  /\ IF e.serial = 0
     THEN /\ zlive' = zlive - 1 /\ UNCHANGED st
          /\ Consume(If(zlive = 0, "C06:zero-size-value-destroyed-more-often-than-created"))
     ELSE /\ UNCHANGED zlive
          /\ st' = Upd(st, e.serial, "dead")
          /\ Consume(If(e.serial \notin DOMAIN st, "H:destroy-of-unknown-serial")
                \cup If(e.serial \in DOMAIN st /\ st[e.serial] = "dead",
                        IF op # <<>> /\ op.op \in {"clone", "clone_from", "clone_from_panic"}
                        THEN "C16:value-destroyed-twice" ELSE "C06:value-destroyed-twice")
                \cup If(e.serial \in DOMAIN st /\ st[e.serial] = "rec" /\ e.serial \notin MayDie,
                        "C06:value-destroyed-while-a-record-still-owns-it"))

\* values handed to the caller: from now on the caller may destroy them
TraceOut ==
  /\ ~dead /\ e.ev = "out" /\ Rest
  /\ outv' = e.vals
  /\ st' = IF op # <<>> /\ (op.op = "unpack" \/ IsOutForm)
           THEN [s \in DOMAIN st |-> IF \E i \in DOMAIN e.vals : e.vals[i][2] = s /\ s # 0 THEN "caller" ELSE st[s]]
           ELSE st
  /\ UNCHANGED <<dead, slots, pay, zlive, op, made, failed, ext, tmp, lastmut, enc, cap>>
  /\ Consume({})

TraceFail ==
  /\ ~dead /\ e.ev = "fail" /\ Rest
  /\ failed' = TRUE
  /\ UNCHANGED <<dead, slots, st, pay, zlive, op, made, outv, ext, tmp, lastmut, enc, cap>>
  /\ Consume({})

------------------------------------------------------------------------------
(* implementation level: one event per primitive call (hooked builds only)   *)
KeyOfType(ty) == ty      \* std::any::type_name on both sides (field `tyname` of the definition)
\* The field a primitive touches is identified by (offset, size, type).  Several zero-size fields
\* of one type can share an offset and are then indistinguishable in the event: a store goes to
\* one that is not stored yet, a load / reference to one that is.
FieldsAt(v, off, size, ty) ==
  {f \in Range(FieldsOf(def, v)) : f.off = off /\ f.size = size /\ f.tyname = ty}
FieldAt(v, off, size, ty, cur, k, hint) ==
  LET c0 == FieldsAt(v, off, size, ty)
      \* a conversion only loads the removed fields and only stores the added ones
      c == IF {f \in c0 : f.fid \in hint} # {} THEN {f \in c0 : f.fid \in hint} ELSE c0
      stored == {f \in c : \E x \in cur : x.fid = f.fid}
      pref == IF k = "write" THEN c \ stored ELSE stored
  IN IF c = {} THEN <<>> ELSE IF pref # {} THEN CHOOSE f \in pref : TRUE ELSE CHOOSE f \in c : TRUE
PrimHint ==
  IF IsConvert /\ CurSlot # <<>> /\ CurSlot.v + 1 \in DOMAIN def.variants
  THEN IF e.k = "write" THEN PlusOf(def, CurSlot.v + 1) ELSE MinusOf(def, CurSlot.v + 1)
  ELSE {}

\* which buffer and which variant a primitive belongs to: <<"slot", s, v>> | <<"tmp", 0, v>> | <<>>
Target ==
  IF op = <<>> THEN <<>>
  ELSE LET s == op.slot  o == op.op IN
  CASE o \in {"new", "new_uninit", "from_unpacked", "from_unpacked_uninit", "de"} -> <<"tmp", 0, op.v>>
    [] o \in {"get", "set", "touch", "dump", "ser", "unpack", "drop", "move"} ->
         IF slots[s] = <<>> THEN <<>> ELSE <<"slot", s, slots[s].v>>
    [] IsConvert -> IF slots[s] = <<>> THEN <<>>
                    ELSE IF e.k = "write" THEN <<"slot", s, slots[s].v + 1>> ELSE <<"slot", s, slots[s].v>>
    [] o = "clone" -> IF slots[s] = <<>> THEN <<>>
                      ELSE IF e.k = "write" THEN <<"tmp", 0, slots[s].v>> ELSE <<"slot", s, slots[s].v>>
    \* both records are live: the buffer address says which one is touched (`a1` / `a2` of the
    \* begin event are the addresses of the two records); without a match, a mutable reference is
    \* attributed to the target and everything else to the source
    [] o \in {"clone_from", "clone_from_panic"} ->
         IF slots[s] = <<>> \/ slots[3 - s] = <<>> THEN <<>>
         ELSE IF e.base = op.a1 /\ op.a1 # op.a2 THEN <<"slot", 1, slots[1].v>>
         ELSE IF e.base = op.a2 /\ op.a1 # op.a2 THEN <<"slot", 2, slots[2].v>>
         ELSE IF e.k = "get_mut" THEN <<"slot", 3 - s, slots[3 - s].v>> ELSE <<"slot", s, slots[s].v>>
    [] OTHER -> <<>>

TracePrim ==
  /\ ~dead /\ e.ev = "prim" /\ Rest
  /\ UNCHANGED <<dead, slots, st, pay, zlive, op, made, outv, failed, lastmut, enc>>
  /\ cap' = e.cap
  /\ LET t == Target IN
     IF t = <<>> \/ t[3] \notin DOMAIN def.variants
     THEN UNCHANGED <<ext, tmp>> /\ Consume({"C07:storage-access-outside-any-operation-on-a-live-record"})
     ELSE LET cur == IF t[1] = "tmp" THEN tmp ELSE ext[t[2]]
              f == FieldAt(t[3], e.off, e.size, e.ty, cur, e.k, PrimHint)
              fid == IF f = <<>> THEN 0 ELSE f.fid
              nxt == IF f = <<>> THEN cur
                     ELSE IF e.k = "read" THEN AfterRead(cur, e.off, e.size, fid, e.drop)
                     ELSE IF e.k = "write" THEN AfterWrite(cur, e.off, e.size, fid, e.drop)
                     ELSE cur
          IN /\ IF t[1] = "tmp" THEN tmp' = nxt /\ UNCHANGED ext
                ELSE ext' = [ext EXCEPT ![t[2]] = nxt] /\ UNCHANGED tmp
             /\ Consume(If(~InBounds(e.off, e.size, e.cap), "C07:access-outside-the-record-capacity")
                   \cup If(f = <<>>, "C07:access-at-an-offset-or-type-that-is-no-field-of-the-variant")
                   \cup If(f # <<>> /\ e.k = "read" /\ ~ReadOk(cur, e.off, e.size, fid, e.drop),
                           "C07:read-of-a-value-that-is-not-stored-there")
                   \cup If(f # <<>> /\ e.k \in {"get", "get_mut"} /\ ~RefOk(cur, e.off, e.size, fid, e.drop),
                           "C07:reference-to-a-value-that-is-not-stored-there")
                   \cup If(f # <<>> /\ e.k = "write" /\ ~WriteOk(cur, e.off, e.size),
                           "C07:store-lands-on-a-value-the-record-still-owns")
                   \cup If(f # <<>> /\ e.k = "write" /\ e.size > 0
                           /\ \E x \in cur : x.fid # fid /\ Overlaps(x, e.off, e.size)
                                            /\ \E g \in Range(FieldsOf(def, t[3])) : g.fid = x.fid,
                           "C07:store-lands-on-the-bytes-of-another-field-of-the-same-variant")
                   \cup If(e.k \in {"read", "get", "get_mut"} /\ e.amod # 0,
                           "C07:misaligned-reference-or-typed-load")
                   \cup If(e.k = "write" /\ e.amod # 0 /\ ~StoreIsAlignmentFree,
                           "C07:alignment-requiring-store-to-a-misaligned-destination"))

------------------------------------------------------------------------------
(* end of an operation: the abstract effect, judged                          *)
Given == [fid \in {op.vals[i][1] : i \in DOMAIN op.vals} |->
            (CHOOSE p \in Range(op.vals) : p[1] = fid)[2]]

\* the made values are consumed by the tracked fields of F in id order
TrackedSeq(v, F) == SelectSeq(FieldsOf(def, v), LAMBDA f : f.fid \in F /\ f.tracked)
ValsFromMadeG(v, F, given) ==
  LET ts == TrackedSeq(v, F)
      idx(fid) == CHOOSE i \in DOMAIN ts : ts[i].fid = fid
  IN [fid \in F |-> IF Field(def, v, fid).tracked
                    THEN [serial |-> made[idx(fid)].serial, payload |-> made[idx(fid)].payload]
                    ELSE [serial |-> 0, payload |-> IF Field(def, v, fid).size = 0 THEN 0
                                                    ELSE IF fid \in DOMAIN given THEN given[fid] ELSE 0]]
ValsFromMade(v, F) == ValsFromMadeG(v, F, Given)
MadeMatches(v, F) ==
  LET ts == TrackedSeq(v, F) IN
  /\ Len(made) = Len(ts)
  /\ \A i \in DOMAIN ts : made[i].key = ts[i].key

AsOut(vals, F) ==    \* what `out` shows for the fields F of a record, in id order
  LET fs == SortedSeq(F) IN
  [i \in DOMAIN fs |-> <<fs[i], vals[fs[i]].serial, IF vals[fs[i]].serial # 0 THEN pay[vals[fs[i]].serial] ELSE vals[fs[i]].payload>>]

Own(s, rec) ==  \* ledger after the record took ownership of its values
  [x \in DOMAIN s |-> IF x \in SerialsOf(rec) THEN "rec" ELSE s[x]]
AllDead(S) == \A x \in S : x \in DOMAIN st /\ st[x] = "dead"
MadeSerials == {made[i].serial : i \in DOMAIN made}

SetSlot(s, rec) == slots' = [slots EXCEPT ![s] = rec]

EndNew(F) ==
  LET v == op.v  s == op.slot IN
  IF ~MadeMatches(v, F) THEN
     /\ UNCHANGED <<slots, st, ext, lastmut>> /\ dead' = TRUE /\ Consume({"H:values-made-do-not-match-the-fields"})
  ELSE LET rec == [v |-> v, vals |-> ValsFromMade(v, F)] IN
     /\ SetSlot(s, rec) /\ st' = Own(st, rec)
     /\ ext' = [ext EXCEPT ![s] = tmp] /\ lastmut' = "C04" /\ dead' = FALSE
     /\ Consume(If(e.res # "ok", "C04:constructor-panicked")
           \cup If(e.res = "ok" /\ cap # 0 /\ ~Agrees(def, v, rec.vals, tmp),
                   "C07:constructor-did-not-store-exactly-the-supplied-fields"))

EndRead(F, what) ==   \* get / dump: compare what the accessors returned
  LET rec == CurSlot IN
  /\ UNCHANGED <<slots, st, ext, lastmut>> /\ dead' = FALSE
  /\ Consume(If(e.res # "ok", "C04:accessor-panicked")
        \cup If(e.res = "ok" /\ (rec = <<>> \/ ~(F \subseteq DOMAIN rec.vals) \/ outv # AsOut(rec.vals, F)),
                lastmut \o ":" \o what))

EndSet ==
  LET rec == CurSlot  f == op.f IN
  IF rec = <<>> \/ ~MadeMatches(rec.v, {f}) THEN
     /\ UNCHANGED <<slots, st, ext, lastmut>> /\ dead' = TRUE /\ Consume({"H:set-on-missing-record-or-values-mismatch"})
  ELSE LET nv == ValsFromMade(rec.v, {f})[f]
           old == IF f \in DOMAIN rec.vals THEN rec.vals[f].serial ELSE 0
           rec2 == [rec EXCEPT !.vals = Upd(rec.vals, f, nv)] IN
     /\ SetSlot(op.slot, rec2) /\ st' = Own(st, rec2) /\ UNCHANGED ext /\ lastmut' = "C04" /\ dead' = FALSE
     /\ Consume(If(e.res # "ok", "C04:mutable-accessor-panicked")
           \cup If(old # 0 /\ ~AllDead({old}), "C06:overwritten-value-was-not-destroyed"))

EndTouch ==
  LET rec == CurSlot  f == op.f IN
  IF rec = <<>> \/ f \notin DOMAIN rec.vals THEN
     /\ UNCHANGED <<slots, st, ext, lastmut>> /\ dead' = TRUE /\ Consume({"H:touch-on-missing-field"})
  ELSE LET x == rec.vals[f]  fld == Field(def, rec.v, f) IN
     /\ UNCHANGED <<st, ext>> /\ lastmut' = "C04" /\ dead' = FALSE
     /\ SetSlot(op.slot, IF x.serial # 0 \/ fld.size = 0 THEN rec
                         ELSE [rec EXCEPT !.vals = Upd(rec.vals, f, [x EXCEPT !.payload = @ + 1])])
     /\ Consume(If(e.res # "ok", "C04:mutable-accessor-panicked"))

EndUnpack ==
  LET rec == CurSlot IN
  /\ SetSlot(op.slot, <<>>) /\ UNCHANGED st /\ lastmut' = "C04" /\ dead' = FALSE
  /\ ext' = [ext EXCEPT ![op.slot] = {}]
  /\ Consume(If(e.res # "ok", "C04:unpack-panicked")
        \cup If(e.res = "ok" /\ (rec = <<>> \/ outv # AsOut(rec.vals, DOMAIN rec.vals)),
                lastmut \o ":unpack-returned-other-values-than-stored")
        \cup If(cap # 0 /\ \E x \in ext[op.slot] : x.droppable,
                "C06:record-forgotten-while-its-buffer-still-holds-a-value"))

EndDrop ==
  LET rec == CurSlot IN
  /\ SetSlot(op.slot, <<>>) /\ UNCHANGED st /\ lastmut' = "C04" /\ dead' = FALSE
  /\ ext' = [ext EXCEPT ![op.slot] = {}]
  /\ Consume(If(e.res # "ok", "C06:drop-panicked")
        \cup If(~AllDead(SerialsOf(rec)), "C06:dropping-the-record-did-not-destroy-every-value-it-owned")
        \cup If(cap # 0 /\ \E x \in ext[op.slot] : x.droppable,
                "C06:record-dropped-while-its-buffer-still-holds-a-value"))

EndConvert ==
  LET rec == CurSlot IN
  IF rec = <<>> \/ rec.v + 1 \notin DOMAIN def.variants THEN
     /\ UNCHANGED <<slots, st, ext, lastmut>> /\ dead' = TRUE /\ Consume({"H:convert-without-next-variant"})
  ELSE LET v == rec.v
           full == op.op \in {"convert_full_simple", "convert_full_out", "convert_vec"}
           F == IF full THEN PlusOf(def, v + 1) ELSE MandatoryPlus(def, v + 1) IN
  IF ~MadeMatches(v + 1, F) THEN
     /\ UNCHANGED <<slots, st, ext, lastmut>> /\ dead' = TRUE /\ Consume({"H:values-made-do-not-match-the-added-fields"})
  ELSE LET given == ValsFromMade(v + 1, F)
           rec2 == [v |-> v + 1, vals |-> ConvertVals(def, v, rec.vals, given)]
           rem == RemovedVals(def, v, rec.vals)
           remSer == {rem[f].serial : f \in DOMAIN rem} \ {0} IN
     /\ SetSlot(op.slot, rec2) /\ st' = Own(st, rec2) /\ UNCHANGED ext /\ lastmut' = "C05" /\ dead' = FALSE
     /\ Consume(If(e.res # "ok", "C05:conversion-panicked")
           \cup If(IsOutForm /\ e.res = "ok" /\ outv # AsOut(rem, DOMAIN rem),
                   "C05:removed-data-not-handed-back-with-the-values-they-had")
           \cup If(~IsOutForm /\ ~AllDead(remSer), "C06:removed-field-not-destroyed-by-the-conversion")
           \cup If(e.res = "ok" /\ cap # 0 /\ ~Agrees(def, v + 1, rec2.vals, ext[op.slot]),
                   "C07:conversion-left-the-buffer-inconsistent-with-the-new-variant"))

\* clone: every tracked initialised field is cloned into exactly one of the made values (the
\* order in which the fields are cloned is not specified)
ClonesOf(rec, fid) == {i \in DOMAIN made : made[i].from = rec.vals[fid].serial}
CloneVals(rec) ==
  LET F == DOMAIN rec.vals
      idx(fid) == CHOOSE i \in ClonesOf(rec, fid) : TRUE
  IN [fid \in F |-> IF Field(def, rec.v, fid).tracked
                    THEN [serial |-> made[idx(fid)].serial, payload |-> made[idx(fid)].payload]
                    ELSE rec.vals[fid]]
CloneMatches(rec) ==
  LET ts == TrackedSeq(rec.v, DOMAIN rec.vals) IN
  /\ Len(made) = Len(ts)
  /\ \A i \in DOMAIN ts : Cardinality(ClonesOf(rec, ts[i].fid)) = 1

EndClone ==
  LET rec == CurSlot  t == 3 - op.slot IN
  IF rec = <<>> THEN /\ UNCHANGED <<slots, st, ext, lastmut>> /\ dead' = TRUE /\ Consume({"H:clone-of-nothing"})
  ELSE IF e.res # "ok"   \* a field's clone panicked (injected): nothing may be left behind
  THEN /\ UNCHANGED <<slots, st, ext, lastmut>> /\ dead' = FALSE
       /\ Consume(If(~AllDead(MadeSerials), "C16:panic-in-a-field-clone-leaked-the-fields-already-cloned"))
  ELSE IF ~CloneMatches(rec)
  THEN /\ UNCHANGED <<slots, st, ext, lastmut>> /\ dead' = TRUE
       /\ Consume({"C16:clone-did-not-clone-each-field-of-the-source-exactly-once"})
  ELSE LET rec2 == [v |-> rec.v, vals |-> CloneVals(rec)]
           \* zero-size owned fields have no identity: their clones are counted
           nz == Cardinality({f \in DOMAIN rec.vals : Field(def, rec.v, f).size = 0 /\ Field(def, rec.v, f).droppable}) IN
       /\ SetSlot(t, rec2) /\ st' = Own(st, rec2) /\ ext' = [ext EXCEPT ![t] = tmp]
       /\ lastmut' = "C16" /\ dead' = FALSE
       /\ Consume(If(cap # 0 /\ ~Agrees(def, rec.v, rec2.vals, tmp), "C07:clone-did-not-store-exactly-the-cloned-fields")
             \cup If(zlive # op.zl + nz, "C16:zero-size-owned-field-not-cloned-through-its-Clone-exactly-once"))

EndCloneFrom ==
  LET src == CurSlot  t == 3 - op.slot  dst == slots[t] IN
  IF src = <<>> \/ dst = <<>> \/ src.v # dst.v THEN
     /\ UNCHANGED <<slots, st, ext, lastmut>> /\ dead' = TRUE /\ Consume({"H:clone_from-needs-two-records-of-one-variant"})
  ELSE IF e.res # "ok" THEN
     /\ UNCHANGED <<slots, st, ext, lastmut>> /\ dead' = TRUE /\ Consume({"C16:clone-assignment-panicked"})
  ELSE IF ~CloneMatches(src) THEN
     /\ UNCHANGED <<slots, st, ext, lastmut>> /\ dead' = TRUE
     /\ Consume({"C16:clone-assignment-did-not-clone-each-field-of-the-source-exactly-once"})
  ELSE LET rec2 == [v |-> src.v, vals |-> CloneVals(src)] IN
     /\ SetSlot(t, rec2) /\ st' = Own(st, rec2) /\ UNCHANGED ext /\ lastmut' = "C16" /\ dead' = FALSE
     /\ Consume(If(~AllDead(SerialsOf(dst)), "C16:previous-contents-of-the-target-not-destroyed-exactly-once"))

\* clone assignment with a panic injected into the k-th field clone, followed (inside the same
\* operation) by the destruction of the target: whatever the order of the field clones and however
\* far the assignment got, every previous value of the target and every clone made must be gone
\* exactly once, and the source must be intact
EndCloneFromPanic ==
  LET src == CurSlot  t == 3 - op.slot  dst == slots[t] IN
  IF src = <<>> \/ dst = <<>> \/ src.v # dst.v THEN
     /\ UNCHANGED <<slots, st, ext, lastmut>> /\ dead' = TRUE /\ Consume({"H:clone_from-needs-two-records-of-one-variant"})
  ELSE
     /\ SetSlot(t, <<>>) /\ UNCHANGED st /\ lastmut' = "C16" /\ dead' = FALSE
     /\ ext' = [ext EXCEPT ![t] = {}]
     /\ Consume(If(e.res # "ok", "H:operation-panicked")
           \cup If(~AllDead(SerialsOf(dst)),
                   "C16:panic-in-a-field-clone-during-clone-assignment-leaked-previous-contents-of-the-target")
           \cup If(~AllDead(MadeSerials), "C16:panic-in-a-field-clone-during-clone-assignment-leaked-a-clone")
           \cup If(\E x \in SerialsOf(src) : st[x] # "rec", "C16:clone-assignment-damaged-its-source"))

EndSer ==
  LET rec == CurSlot IN
  /\ UNCHANGED <<slots, st, ext, lastmut>> /\ dead' = FALSE
  /\ Consume(If(e.res # "ok", "C15:serialisation-panicked")
        \cup If(e.res = "ok" /\ (rec = <<>> \/ DOMAIN rec.vals # FidsOf(def, rec.v)
                  \/ outv # [i \in DOMAIN AsOut(rec.vals, DOMAIN rec.vals) |-> AsOut(rec.vals, DOMAIN rec.vals)[i][3]]),
                "C15:fields-not-encoded-in-declaration-order-with-their-values"))

EndDe ==
  LET v == op.v  s == op.slot
      n == Len(FieldsOf(def, v))
      selfdesc == op.fmt # "bincode"
      mustFail == \/ op.mut[1] = "truncate" /\ op.mut[2] < n
                  \/ op.mut[1] = "corrupt" /\ op.mut[2] \in 1..n
                  \/ op.mut[1] = "extend" /\ selfdesc
      mayFail == mustFail \/ op.mut[1] = "extend" IN
  IF e.res # "ok" THEN
     /\ UNCHANGED <<slots, st, ext, lastmut>> /\ dead' = FALSE
     /\ Consume({"C15:deserialisation-panicked-instead-of-returning-an-error"}
           \cup If(~AllDead(MadeSerials), "C15:failed-decode-leaked-an-already-decoded-value"))
  ELSE IF failed THEN
     /\ UNCHANGED <<slots, st, ext, lastmut>> /\ dead' = FALSE
     /\ Consume(If(~mayFail, "C15:well-formed-input-rejected")
           \cup If(~AllDead(MadeSerials), "C15:failed-decode-leaked-an-already-decoded-value"))
  ELSE IF ~MadeMatches(v, FidsOf(def, v)) THEN
     /\ UNCHANGED <<slots, st, ext, lastmut>> /\ dead' = TRUE /\ Consume({"H:decoded-values-do-not-match-the-fields"})
  ELSE LET fs == FieldsOf(def, v)
           decoded == [fid \in FidsOf(def, v) |->
                         LET i == CHOOSE j \in DOMAIN fs : fs[j].fid = fid IN IF i \in DOMAIN enc THEN enc[i] ELSE 0]
           rec == [v |-> v, vals |-> ValsFromMadeG(v, FidsOf(def, v), decoded)] IN
     /\ SetSlot(s, rec) /\ st' = Own(st, rec) /\ ext' = [ext EXCEPT ![s] = tmp] /\ lastmut' = "C15" /\ dead' = FALSE
     /\ Consume(If(mustFail, "C15:malformed-input-accepted"))

TraceEnd ==
  /\ ~dead /\ e.ev = "end" /\ Rest /\ op # <<>>
  /\ op' = <<>> /\ made' = <<>> /\ outv' = <<>> /\ failed' = FALSE /\ tmp' = {}
  /\ UNCHANGED <<zlive, cap>>
  /\ enc' = IF op.op = "ser" /\ e.res = "ok" THEN outv ELSE enc
  /\ pay' = IF op.op = "touch" /\ CurSlot # <<>> /\ op.f \in DOMAIN CurSlot.vals /\ CurSlot.vals[op.f].serial # 0
            THEN [pay EXCEPT ![CurSlot.vals[op.f].serial] = @ + 1] ELSE pay
  /\ LET o == op.op IN
     CASE o \in {"new", "from_unpacked"} -> EndNew(FidsOf(def, op.v))
       [] o \in {"new_uninit", "from_unpacked_uninit"} -> EndNew(Mandatory(def, op.v))
       [] o = "get" -> EndRead({op.f}, "accessor-returned-another-value-than-stored")
       [] o = "dump" -> EndRead(IF CurSlot = <<>> THEN {} ELSE DOMAIN CurSlot.vals, "field-values-differ-from-what-was-stored")
       [] o = "set" -> EndSet
       [] o = "touch" -> EndTouch
       [] o = "unpack" -> EndUnpack
       [] o = "drop" -> EndDrop
       [] IsConvert -> EndConvert
       [] o = "clone" -> EndClone
       [] o = "clone_from" -> EndCloneFrom
       [] o = "clone_from_panic" -> EndCloneFromPanic
       [] o = "ser" -> EndSer
       [] o = "de" -> EndDe
       [] OTHER -> /\ UNCHANGED <<slots, st, ext, lastmut>> /\ dead' = FALSE
                   /\ Consume(If(e.res # "ok", "H:operation-panicked"))

TraceFin ==
  /\ ~dead /\ e.ev = "fin" /\ Rest
  /\ dead' = TRUE
  /\ UNCHANGED <<slots, st, pay, zlive, op, made, outv, failed, ext, tmp, lastmut, enc, cap>>
  /\ Consume(If(\E x \in DOMAIN st : st[x] # "dead", "C06:value-never-destroyed")
        \cup If(zlive # 0, "C06:zero-size-value-never-destroyed"))

\* hook events of the in-place vector conversion (operation convert_vec): not this machine's
TraceIgnore ==
  /\ ~dead /\ e.ev = "vc" /\ Rest
  /\ UNCHANGED <<dead, slots, st, pay, zlive, op, made, outv, failed, ext, tmp, lastmut, enc, cap>>
  /\ Consume({})

\* the driver process was killed (a signal, or a non-unwinding panic): the script ends here
TraceAbort ==
  /\ ~dead /\ e.ev = "abort" /\ Rest
  /\ dead' = TRUE
  /\ UNCHANGED <<slots, st, pay, zlive, op, made, outv, failed, ext, tmp, lastmut, enc, cap>>
  /\ Consume({"C07:process-killed-while-generated-code-was-running"})

TraceNext ==
  /\ l <= Len(Rec)
  /\ \/ TraceDef \/ TraceScript \/ TraceSkip \/ TraceBegin \/ TraceMake \/ TraceClone \/ TraceDestroy
     \/ TraceOut \/ TraceFail \/ TracePrim \/ TraceEnd \/ TraceFin \/ TraceAbort \/ TraceIgnore

TraceSpec == TraceInit /\ [][TraceNext]_tvars

Report ==
  (l = Len(Rec) + 1) =>
     PrintT(<<"VERDICT", ToJson([consumed |-> l - 1, total |-> Len(Rec), bad |-> bad])>>)

TraceAccepted ==
  LET d == TLCGet("stats").diameter IN
  IF d - 1 = Len(Rec) THEN TRUE
  ELSE /\ PrintT(<<"UNMATCHED", d, IF d <= Len(Rec) THEN ToJson(Rec[d]) ELSE "none">>)
       /\ FALSE
=============================================================================
