---------------------------- MODULE MCVecConvert ----------------------------
(* Bounded model: every length 0..N, matching and mismatching layouts, and  *)
(* every behaviour of the converter.  Clean-up and caller drops are taken   *)
(* in index order here (the order is irrelevant to every invariant; the     *)
(* trace specification accepts any order), which keeps the state space      *)
(* linear in the number of live cells instead of exponential.               *)
EXTENDS VecConvert
CONSTANT N
MCInit == \E len \in 0..N, mm \in BOOLEAN : VInit(len, mm, len > 0)
MinLive == CHOOSE i \in LiveCells : \A j \in LiveCells : i <= j
MCNext ==
  \/ CheckOk \/ Refuse \/ TakeCall
  \/ \E x \in owned : DropOwned(x)
  \/ TouchPrev \/ MakeOutput
  \/ \E u \in 1..(nextU - 1) : ConvConverted(u)
  \/ ConvAbandoned \/ ConvErr(nextU + 100) \/ ConvPanic(nextU + 200)
  \/ Store \/ Finish
  \/ (LiveCells # {} /\ (CleanupDrop(MinLive) \/ CallerDrop(MinLive)))
  \/ FreeBuffer \/ Raise \/ CallerFree
Spec == MCInit /\ [][MCNext]_vvars
=============================================================================
