SPECIFICATION Spec
CONSTANTS
  Leaves <- LeafSet
  BinaryPartners <- PartnerSet
  MaxTerms = 0
  DepthC = 2
INVARIANT Emit
CHECK_DEADLOCK FALSE
