------------------------------- MODULE VecTrace -------------------------------
(***************************************************************************)
(* Trace specification for try_convert_vec_in_place: validates the ndjson  *)
(* streams recorded by harness/vec_driver from the REAL runtime against    *)
(* VecConvert.tla, in the "follow the implementation, judge every step"    *)
(* style of BuilderTrace.tla.                                              *)
(*                                                                         *)
(* Grain of atomicity: the `scenario` event is VInit composed with the     *)
(* layout check (CheckOk / Refuse); `call` is TakeCall; `conv converted`   *)
(* is ConvConverted composed with Store; `ret ok` is Finish; `ret err` /   *)
(* `ret panic` is Raise.  The hook events `vc` (compiled in with           *)
(* --cfg truc_verif) change nothing: they carry the loop's own indices,    *)
(* which must equal the specification's at that point.  Zero-size elements *)
(* have no identity (id 0): the specification picks the value canonically. *)
(***************************************************************************)
EXTENDS VecConvert, Json, IOUtils

Rec == ndJsonDeserialize(IOEnv.TRACE)

VARIABLES l, bad, dead, sid, zst, tT, tU, cat
\* tT / tU: the input / output element type has a destructor the harness can observe
\* cat: property the ledger problems of this scenario are attributed to

tvars == <<vvars, l, bad, dead, sid, zst, tT, tU, cat>>

e == Rec[l]
If(c, t) == IF c THEN {t} ELSE {}
Consume(tags) ==
  /\ l' = l + 1
  /\ bad' = bad \cup {[tag |-> t, sid |-> sid, line |-> l] : t \in tags}
Keep == UNCHANGED <<dead, sid, zst, tT, tU, cat>>
Tr(k) == IF k = "T" THEN tT ELSE tU
OwnedTracked == {x \in owned : Tr(x[1])}
LiveTracked == {i \in LiveCells : Tr(cells[i].k)}

TraceInit ==
  /\ VInit(0, FALSE, FALSE)
  /\ l = 1 /\ bad = {} /\ dead = TRUE /\ sid = 0 /\ zst = FALSE /\ tT = TRUE /\ tU = TRUE /\ cat = "C08"

------------------------------------------------------------------------------
TraceScenario ==
  /\ e.ev = "scenario"
  /\ n' = e.n /\ mismatch' = e.mismatch /\ hasbuf' = e.hasbuf
  /\ cells' = [i \in 1..e.n |-> [k |-> "T", id |-> i]]
  /\ firstMoved' = 0 /\ firstTtt' = 0
  /\ owned' = {} /\ pending' = 0 /\ flags' = {}
  /\ dT' = [i \in 1..e.n |-> 0] /\ dU' = <<>> /\ payload' = <<>>
  /\ nextU' = 1 /\ outs' = <<>> /\ calls' = <<>> /\ result' = <<>>
  /\ IF e.mismatch
     THEN pc' = "cleanup" /\ fail' = [kind |-> "panic", id |-> 0] /\ buffer' = "vec"     \* Refuse
     ELSE pc' = "loop" /\ fail' = <<>> /\ buffer' = "function"                           \* CheckOk
  /\ dead' = FALSE /\ sid' = e.sid /\ zst' = e.zst /\ tT' = e.trackedT /\ tU' = e.trackedU
  /\ cat' = IF e.mismatch THEN "C10" ELSE "C08"
  /\ l' = l + 1 /\ bad' = bad

TraceSkip ==
  /\ dead /\ e.ev \notin {"scenario", "abort"}
  /\ UNCHANGED <<vvars, bad>> /\ Keep
  /\ l' = l + 1

\* hook events: the loop's own indices
TraceVc ==
  /\ ~dead /\ e.ev = "vc"
  /\ UNCHANGED vvars /\ Keep
  /\ LET want == CASE e.at = "start"   -> <<0, 0>>
                   [] e.at = "take"    -> <<firstMoved, firstTtt + 1>>
                   [] e.at = "store"   -> <<firstMoved, firstTtt>>
                   [] e.at = "cleanup" -> <<firstMoved, firstTtt>>
                   [] e.at = "finish"  -> <<firstMoved, n>>
                   [] OTHER            -> <<0 - 1, 0 - 1>>
         okpc == CASE e.at \in {"start", "take", "store", "finish"} -> pc = "loop"
                   [] e.at = "cleanup" -> pc = "cleanup"
                   [] OTHER -> FALSE
     IN Consume(If(<<e.first_moved, e.first_ttt>> # want \/ e.len # n \/ ~okpc,
                   (IF e.at = "cleanup" THEN "C09" ELSE "C08")
                     \o ":loop-indices-differ-from-the-three-region-specification")
           \cup If(e.at = "finish" /\ firstTtt # n, "C08:finished-before-consuming-every-input")
           \cup If(~ThreeRegions, "C08:three-region-invariant-broken"))

TraceCall ==
  /\ ~dead /\ e.ev = "call"
  /\ UNCHANGED <<sid, zst, tT, tU, cat>>
  /\ IF CanTake
     THEN /\ DoTakeCall
          /\ Consume(If(~zst /\ e.i # cells[firstTtt + 1].id, "C08:input-not-passed-in-order-exactly-once")
                \cup If(e.hasprev # (PrevOut # 0) \/ (~zst /\ e.prev # PrevOut),
                        "C08:previous-output-argument-is-not-the-last-output"))
     ELSE /\ UNCHANGED vvars
          /\ Consume(If(fail # <<>> /\ ~mismatch, "C09:converter-called-again-after-a-failure")
                \cup If(mismatch, "C10:converter-called-despite-layout-mismatch")
                \cup If(fail = <<>> /\ ~mismatch, "C08:unexpected-converter-call"))
  /\ dead' = ~CanTake

TraceTouch ==
  /\ ~dead /\ e.ev = "touch" /\ Keep
  /\ IF CanTouch THEN DoTouch /\ Consume(If(~zst /\ e.out # PrevOut, "C08:previous-output-argument-is-not-the-last-output"))
     ELSE UNCHANGED vvars /\ Consume({"H:touch-without-previous-output"})

TraceMake ==
  /\ ~dead /\ e.ev = "make" /\ Keep
  /\ IF CanMake THEN DoMake /\ Consume(If(e.out # nextU, "H:output-serial-out-of-sequence"))
     ELSE UNCHANGED vvars /\ Consume({"H:second-output-in-one-call"})

\* a drop event: which value of the specification is it?
OwnedOfKind(k) == {x \in owned : x[1] = k}
CellsOf(k, id) == {i \in LiveCells : cells[i].k = k /\ (zst \/ cells[i].id = id)}
MinOf(S) == CHOOSE i \in S : \A j \in S : i <= j
Ledger(t) == (IF mismatch THEN "C10" ELSE IF fail # <<>> THEN "C09" ELSE cat) \o ":" \o t
FailCat == IF mismatch THEN "C10" ELSE "C09"

TraceDrop ==
  /\ ~dead /\ e.ev = "drop" /\ Keep
  /\ LET x == IF zst THEN (IF OwnedOfKind(e.k) # {} THEN CHOOSE y \in OwnedOfKind(e.k) : TRUE ELSE <<>>)
              ELSE (IF <<e.k, e.id>> \in owned THEN <<e.k, e.id>> ELSE <<>>)
         cs == IF pc \in {"cleanup", "caller"} THEN CellsOf(e.k, e.id) ELSE {}
     IN IF x # <<>> /\ pc \in {"incall", "cleanup"}
        THEN DoDropOwned(x) /\ Consume({})
        ELSE IF cs # {}
        THEN /\ cells' = [cells EXCEPT ![MinOf(cs)] = Dead]
             /\ IF e.k = "T" THEN dT' = Bump(dT, cells[MinOf(cs)].id) /\ UNCHANGED dU
                             ELSE dU' = Bump(dU, cells[MinOf(cs)].id) /\ UNCHANGED dT
             /\ UNCHANGED <<flags, n, mismatch, hasbuf, firstMoved, firstTtt, pc, owned, pending, payload,
                            nextU, outs, calls, buffer, fail, result>>
             /\ Consume(If(pc = "cleanup" /\ ~mismatch /\ buffer = "freed",
                           "C09:element-dropped-after-its-buffer-was-released"))
        ELSE \* neither owned by the converter nor a live cell being cleaned up
             /\ IF ~zst /\ e.k = "T" /\ e.id \in DOMAIN dT
                THEN dT' = Bump(dT, e.id) /\ UNCHANGED dU
                ELSE IF ~zst /\ e.k = "U" /\ e.id \in DOMAIN dU
                THEN dU' = Bump(dU, e.id) /\ UNCHANGED dT
                ELSE UNCHANGED <<dT, dU>>
             /\ UNCHANGED <<flags, n, mismatch, hasbuf, cells, firstMoved, firstTtt, pc, owned, pending,
                            payload, nextU, outs, calls, buffer, fail, result>>
             /\ Consume({Ledger(IF pc \in {"cleanup", "caller", "raised", "end"}
                                THEN "value-dropped-twice" ELSE "value-dropped-while-the-buffer-still-holds-it")})

TraceConv ==
  /\ ~dead /\ e.ev = "conv" /\ Keep
  /\ IF pc # "incall" THEN UNCHANGED vvars /\ Consume({"H:converter-outcome-outside-a-call"})
     ELSE LET madeOk == (e.kind = "converted") => (<<"U", e.out>> \in owned)
              left == IF e.kind = "converted" THEN OwnedTracked \ {<<"U", e.out>>} ELSE OwnedTracked
          IN IF ~madeOk \/ (e.kind # "panic" /\ left # {})
             THEN UNCHANGED vvars /\ Consume({"H:converter-returned-still-owning-values"})
             ELSE /\ pending' = 0
                  /\ IF e.kind = "converted"          \* ConvConverted composed with Store
                     THEN /\ cells' = [cells EXCEPT ![firstMoved + 1] = [k |-> "U", id |-> e.out]]
                          /\ firstMoved' = firstMoved + 1 /\ outs' = Append(outs, e.out)
                          /\ pc' = "loop" /\ owned' = {} /\ UNCHANGED fail
                     ELSE IF e.kind = "abandoned"      \* ConvAbandoned
                     THEN pc' = "loop" /\ owned' = {} /\ UNCHANGED <<cells, firstMoved, outs, fail>>
                     ELSE /\ pc' = "cleanup" /\ fail' = [kind |-> e.kind, id |-> e.fid]   \* ConvErr / ConvPanic
                          /\ owned' = IF e.kind = "panic" THEN OwnedTracked ELSE {}
                          /\ UNCHANGED <<cells, firstMoved, outs>>
                  /\ UNCHANGED <<flags, n, mismatch, hasbuf, firstTtt, dT, dU, payload, nextU, calls, buffer, result>>
                  /\ Consume(If(e.kind = "converted" /\ cells[firstMoved + 1].k # "dead",
                                "C08:three-region-invariant-broken"))

TraceDealloc ==
  /\ ~dead /\ e.ev = "dealloc" /\ Keep
  /\ buffer' = "freed"
  /\ UNCHANGED <<flags, n, mismatch, hasbuf, cells, firstMoved, firstTtt, pc, owned, pending, dT, dU, payload,
                 nextU, outs, calls, fail, result>>
  /\ Consume(If(pc \in {"loop", "incall", "store"}, "C08:buffer-released-during-the-conversion")
        \cup If(buffer = "freed", Ledger("buffer-released-twice"))
        \cup If(pc \in {"cleanup", "caller"} /\ LiveTracked # {},
                Ledger("buffer-released-before-its-elements-were-dropped")))

TraceRet ==
  /\ ~dead /\ e.ev = "ret" /\ Keep
  /\ IF e.kind = "ok"
     THEN /\ result' = [kind |-> "ok", ids |-> outs,
                        payloads |-> [i \in DOMAIN outs |-> payload[outs[i]]], fid |-> 0]
          /\ buffer' = IF buffer = "function" THEN "result" ELSE buffer
          /\ pc' = "caller"
          /\ UNCHANGED <<flags, n, mismatch, hasbuf, cells, firstMoved, firstTtt, owned, pending, dT, dU,
                         payload, nextU, outs, calls, fail>>
          /\ Consume(If(mismatch, "C10:conversion-not-refused-despite-layout-mismatch")
                \cup If(fail # <<>> /\ ~mismatch, "C09:result-returned-although-the-converter-failed")
                \cup If(~mismatch /\ fail = <<>> /\ (pc # "loop" \/ firstTtt # n),
                        "C08:returned-before-every-input-was-passed-to-the-converter")
                \cup If(e.len # Len(outs) \/ (~zst /\ e.ids # outs),
                        "C08:result-is-not-the-converted-elements-in-input-order")
                \cup If(~zst /\ e.len = Len(outs) /\ e.payloads # [i \in DOMAIN outs |-> payload[outs[i]]],
                        "C08:result-elements-lost-a-modification-made-through-the-previous-output-argument")
                \cup If(hasbuf /\ (~e.same_ptr \/ ~e.same_cap), "C08:allocation-or-capacity-not-reused"))
     ELSE /\ result' = [kind |-> e.kind, ids |-> <<>>, payloads |-> <<>>, fid |-> e.fid]
          /\ pc' = "raised"
          /\ UNCHANGED <<flags, n, mismatch, hasbuf, cells, firstMoved, firstTtt, owned, pending, dT, dU,
                         payload, nextU, outs, calls, buffer, fail>>
          /\ Consume(If(mismatch /\ (e.kind # "panic" \/ ~e.assert), "C10:refusal-is-not-the-assertion-panic")
                \cup If(~mismatch /\ fail = <<>>, "C09:failure-reported-although-the-converter-did-not-fail")
                \cup If(~mismatch /\ fail # <<>> /\ (e.kind # fail.kind \/ e.fid # fail.id),
                        "C09:caller-did-not-receive-the-very-error-or-panic-payload")
                \cup If(LiveTracked # {} \/ OwnedTracked # {},
                        FailCat \o ":elements-not-all-dropped-when-the-failure-reached-the-caller")
                \cup If(hasbuf /\ buffer # "freed",
                        FailCat \o ":buffer-not-released-when-the-failure-reached-the-caller"))

TraceEnd ==
  /\ ~dead /\ e.ev = "end" /\ Keep
  /\ pc' = "end"
  /\ UNCHANGED <<flags, n, mismatch, hasbuf, cells, firstMoved, firstTtt, owned, pending, dT, dU, payload,
                 nextU, outs, calls, buffer, fail, result>>
  /\ LET c == IF result # <<>> /\ result.kind # "ok" /\ ~mismatch THEN "C09" ELSE cat IN
     Consume(If(tT /\ \E i \in DOMAIN dT : dT[i] = 0, c \o ":input-element-never-dropped")
        \cup If(tT /\ \E i \in DOMAIN dT : dT[i] > 1, c \o ":input-element-dropped-twice")
        \cup If(tU /\ \E u \in DOMAIN dU : dU[u] = 0, c \o ":output-element-never-dropped")
        \cup If(tU /\ \E u \in DOMAIN dU : dU[u] > 1, c \o ":output-element-dropped-twice")
        \cup If(hasbuf /\ buffer # "freed", c \o ":buffer-never-released")
        \cup If(result = <<>>, "H:no-result"))

\* the driver process was killed while or after running this scenario (heap corruption)
TraceAbort ==
  /\ e.ev = "abort"
  /\ UNCHANGED <<vvars, sid, zst, tT, tU, cat>>
  /\ dead' = TRUE
  /\ Consume(If(~dead, Ledger("process-killed-while-the-conversion-or-its-clean-up-was-running")))

TraceNext ==
  /\ l <= Len(Rec)
  /\ \/ TraceScenario \/ TraceSkip \/ TraceVc \/ TraceCall \/ TraceTouch \/ TraceMake \/ TraceDrop
     \/ TraceConv \/ TraceDealloc \/ TraceRet \/ TraceEnd \/ TraceAbort

TraceSpec == TraceInit /\ [][TraceNext]_tvars

Report ==
  (l = Len(Rec) + 1) =>
     PrintT(<<"VERDICT", ToJson([consumed |-> l - 1, total |-> Len(Rec), bad |-> bad])>>)

TraceAccepted ==
  LET d == TLCGet("stats").diameter IN
  IF d - 1 = Len(Rec) THEN TRUE
  ELSE /\ PrintT(<<"UNMATCHED", d, IF d <= Len(Rec) THEN ToJson(Rec[d]) ELSE "none">>)
       /\ FALSE
=============================================================================
