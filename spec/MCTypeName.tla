------------------------------ MODULE MCTypeName ------------------------------
(* Enumerates the type terms to the configured depth; one REPLAY line each.  *)
EXTENDS TypeName
CONSTANT DepthC
LeafSet == {<<"prim", "u8">>, <<"prim", "u64">>, <<"prim", "bool">>, <<"String">>, <<"BoxStr">>, <<"Unit">>,
            <<"user", "lab_types::P4">>, <<"user", "lab_types::Tracked">>,
            \* a user type whose path ENDS with a standard path: it must not be shortened
            <<"user", "lab_types::compat::alloc::string::String">>}
PartnerSet == {<<"prim", "u8">>, <<"String">>}
VARIABLE t
Init == t = <<>>
Terms == CASE DepthC = 1 -> Depth1 [] DepthC = 2 -> Depth2 [] DepthC = 3 -> Depth3
Pick == t = <<>> /\ \E x \in Terms : t' = x
Spec == Init /\ [][Pick]_t
Emit == (t # <<>>) => PrintT(<<"REPLAY", ToJson([short |-> Short(t), qualified |-> Qualified(t),
                                                mixed |-> Mixed(t, TRUE), mixed2 |-> Mixed(t, FALSE)])>>)
=============================================================================
