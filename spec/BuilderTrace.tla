----------------------------- MODULE BuilderTrace -----------------------------
(***************************************************************************)
(* Trace specification for the builder: validates ndjson traces recorded   *)
(* by harness/builder_driver from the REAL builders against Builder.tla.   *)
(*                                                                         *)
(* Shape: "follow the implementation, judge every step".  For every event  *)
(* the spec action selected by the logged result is taken (its effect is   *)
(* applied); when the action's guard does not hold, or the projected state *)
(* logged after the call differs from the specification's state, or an     *)
(* invariant / step property is false in the state reached, a tag          *)
(* "<property>:<what>" is added to `bad` together with the history id and  *)
(* the line.  A Close binds whatever list and offsets the code produced    *)
(* (permissive in the step), the invariants decide (strict in the          *)
(* invariant).  Tags starting with "DRIFT:" only say that the concrete     *)
(* transcription of a strategy predicted something else: never a verdict.  *)
(* When the projected state cannot be followed any more (`dead`), the rest *)
(* of that history is skipped up to the next reset.                        *)
(***************************************************************************)
EXTENDS Builder, Json, IOUtils

Rec == ndJsonDeserialize(IOEnv.TRACE)

VARIABLES
  l,      \* cursor into Rec
  bad,    \* set of [tag, hid, line]
  dead,   \* the current history can no longer be followed
  hid,    \* id of the current history
  run,    \* 1 = as scripted, 2 = same again, 3 = other Rust types / entry points, 4 = other process,
          \* 5, 6, ... = the same requests on another host (the driver interpreted for a foreign target)
  memo,   \* first build of the current group of runs (same shape history), <<>> if none
  cmemo,  \* what the conversion helper produced in run 1 of the group, one entry per conversion
  cidx,   \* number of conversions seen in the current run
  src     \* the definition being replayed through the conversion helper, <<>> if none

tvars == <<bvars, l, bad, dead, hid, run, memo, cmemo, cidx, src>>

e == Rec[l]
Off(x) == IF x = -1 THEN UNSET ELSE x
If(c, t) == IF c THEN {t} ELSE {}

TraceInit ==
  /\ BInit("native")
  /\ l = 1 /\ bad = {} /\ dead = FALSE /\ hid = 0 /\ run = 0 /\ memo = <<>> /\ src = <<>>
  /\ cmemo = <<>> /\ cidx = 0

Consume(tags) ==
  /\ l' = l + 1
  /\ bad' = bad \cup {[tag |-> t, hid |-> hid, line |-> l] : t \in tags}

\* projected state logged after the call vs the specification's state (primed)
StateDiffers == e.cur # Current' \/ e.nvar # Len(variants')

------------------------------------------------------------------------------
TraceReset ==
  /\ e.ev = "reset"
  /\ kind' = e.kind /\ defs' = <<>> /\ variants' = <<>> /\ toAdd' = <<>> /\ toRemove' = {}
  /\ last' = [op |-> "init"]
  /\ dead' = FALSE /\ hid' = e.hid /\ run' = e.run
  /\ memo' = IF e.run = 1 THEN <<>> ELSE memo
  /\ cmemo' = IF e.run = 1 THEN <<>> ELSE cmemo
  /\ cidx' = 0
  /\ src' = <<>>
  /\ Consume({})

TraceSkip ==      \* history that could not be followed: consume up to the next reset
  /\ dead /\ e.ev # "reset"
  /\ UNCHANGED <<bvars, dead, hid, run, memo, cmemo, cidx, src, bad>>
  /\ l' = l + 1

TraceAdd ==
  /\ ~dead /\ e.ev = "add"
  /\ IF e.res = "ok"
     THEN /\ DoAdd(e.name, e.size, e.align, e.uninit)
          /\ last' = [op |-> "add", res |-> "ok", id |-> e.id]
          /\ dead' = (StateDiffers \/ e.id # Len(defs) + 1)
          /\ Consume(If(~CanAdd(e.name), "C12:add-accepted-duplicate-name")
                \cup If(e.id # Len(defs) + 1, "C12:datum-id-not-fresh")
                \cup If(e.rname # e.name, "C12:recorded-name-differs")
                \cup If(e.rsize # e.size \/ e.ralign # e.align \/ e.rtname # e.tname
                        \/ e.runinit # e.uninit,
                        "C18:recorded-type-info-is-not-the-resolvers-answer")
                \cup If(StateDiffers, "C12:state-differs-after-add"))
     ELSE /\ Same
          /\ last' = [op |-> "add", res |-> "err", id |-> 0]
          /\ dead' = StateDiffers
          /\ Consume(If(CanAdd(e.name), "C12:add-rejected-fresh-name")
                \cup If(StateDiffers, "C12:rejected-add-changed-state"))
  /\ UNCHANGED <<hid, run, memo, cmemo, cidx, src>>

TraceRemove ==
  /\ ~dead /\ e.ev = "remove"
  /\ IF e.res = "ok"
     THEN /\ IF CanRemoveCarried(e.id) THEN DoRemoveCarried(e.id)
             ELSE IF CanRemovePending(e.id) THEN DoRemovePending(e.id)
             ELSE Same
          /\ Consume(If(~CanRemove(e.id), "C12:remove-accepted-absent-or-removed-datum")
                \cup If(StateDiffers, "C12:state-differs-after-remove"))
     ELSE /\ Same
          /\ Consume(If(CanRemove(e.id), "C12:remove-rejected-present-datum")
                \cup If(StateDiffers, "C12:rejected-remove-changed-state"))
  /\ last' = [op |-> "remove", id |-> e.id, res |-> e.res]
  /\ dead' = StateDiffers
  /\ UNCHANGED <<hid, run, memo, cmemo, cidx, src>>

\* facts about the state reached by a close / observed at build, as tags
LayoutTags ==
  If(~NoOverlap, "C01:two-data-share-a-byte")
  \cup If(~Placed, "C02:datum-without-offset")
  \cup If(~Aligned, "C02:misaligned-datum")
  \cup If(~NonZstStrictlyIncreasing, "C02:variant-not-in-address-order")
  \cup If(~IdsNeverReused, "C12:datum-id-reused")
  \cup If(~NamesUniquePerVariant, "C12:duplicate-name-in-variant")
  \cup If(~AddressOrdered, "LEMMA:zero-size-datum-out-of-address-order")

TraceClose ==
  /\ ~dead /\ e.ev = "close"
  /\ IF e.nvar = Len(variants) + 1 /\ Len(e.offs) = Len(defs)
     THEN \* the code created a variant: bind what it produced
          /\ DoClose(e.list, [i \in DOMAIN defs |-> [defs[i] EXCEPT !.off = Off(e.offs[i])]])
          /\ dead' = StateDiffers
          /\ LET pred == Strategy(e.strategy, Kept, defs, toAdd) IN
             Consume(If(~HasPending, "C12:close-without-change-created-a-variant")
                \cup If(e.res # Len(variants) + 1, "C12:close-returned-wrong-variant-id")
                \cup If(~MembershipStep, "C12:variant-is-not-previous-minus-removed-plus-added")
                \cup If(~NeverMovesStep, "C03:datum-moved-after-its-variant-was-closed")
                \cup If(~FrameStep, "C12:close-changed-more-than-offsets")
                \cup LayoutTags'
                \cup If(StateDiffers, "C12:state-differs-after-close")
                \cup If(HasPending /\ (pred[1] # e.list \/ pred[2] # defs'), "DRIFT:close"))
     ELSE /\ Same
          /\ dead' = StateDiffers
          /\ Consume(If(HasPending, "C12:close-ignored-pending-changes")
                \cup If(e.res # Len(variants), "C12:noop-close-returned-wrong-variant-id")
                \cup If(StateDiffers, "C12:state-differs-after-close"))
  /\ last' = [op |-> "close", strategy |-> e.strategy, res |-> e.res]
  /\ UNCHANGED <<hid, run, memo, cmemo, cidx, src>>

NameIn(list, name) ==
  LET hits == {list[i] : i \in {j \in DOMAIN list : defs[list[j]].name = name}} IN
  IF hits = {} THEN 0 ELSE CHOOSE x \in hits : TRUE

TraceQuery ==
  /\ ~dead /\ e.ev \in {"qcur", "qvar"}
  /\ UNCHANGED <<bvars, dead, hid, run, memo, cmemo, cidx, src>>
  /\ IF e.ev = "qcur"
     THEN Consume(If(e.res # NameIn(Current, e.name), "C12:lookup-by-name-in-current-variant"))
     ELSE Consume(If(e.res # (IF e.variant \in DOMAIN variants
                              THEN NameIn(variants[e.variant], e.name) ELSE 0),
                     "C12:lookup-by-name-in-variant"))

------------------------------------------------------------------------------
\* a built definition as observed (event fields `variants`, `data`)
ObsDefs == [i \in DOMAIN e.data |->
              [name |-> e.data[i].name, size |-> e.data[i].size, align |-> e.data[i].align,
               uninit |-> e.data[i].uninit, off |-> Off(e.data[i].off)]]
ObsOffs == [i \in DOMAIN e.data |-> e.data[i].off]
SameButOffsets(a, b) ==
  Len(a) = Len(b) /\ \A i \in DOMAIN a : [a[i] EXCEPT !.off = 0] = [b[i] EXCEPT !.off = 0]
AllEqual(s) == \A i, j \in DOMAIN s : s[i] = s[j]

BuiltTags ==     \* evaluated on the unprimed state (build does not change it)
  If(e.variants # variants, "C12:built-variants-differ-from-builder-state")
  \cup If(~SameButOffsets(ObsDefs, defs), "C12:built-data-differ-from-builder-state")
  \cup If(\E i \in (DOMAIN defs) \cap (DOMAIN ObsDefs) : defs[i].off # UNSET /\ ObsDefs[i].off # defs[i].off,
          "C03:offset-of-a-datum-on-the-built-definition-differs-from-its-offset-when-its-variant-was-closed")
  \cup If(kind = "native" /\ e.variants = variants /\
          \E v \in DOMAIN variants : \E i \in DOMAIN variants[v] :
             e.voffs[v][i] # (IF defs[variants[v][i]].off = UNSET THEN 0 - 1 ELSE defs[variants[v][i]].off),
          "C03:offset-looked-up-by-datum-id-on-the-built-definition-differs-from-the-offset-at-close")
  \cup If(\E i \in DOMAIN defs : i \in VariantIds /\ i \notin DOMAIN ObsDefs,
          "C03:datum-of-a-closed-variant-missing-from-the-built-definition")
  \cup LayoutTags
  \cup (IF kind # "native" THEN {} ELSE
          If(e.max_size = -1, "C13:capacity-computation-panics")
          \cup If(e.max_align = -1, "C13:alignment-computation-panics")
          \cup If(e.display = "panic", "C13:display-panics")
          \cup If(e.generate = "panic", "C13:generate-panics")
          \cup If(e.pub_cap # -1 /\ ~WithinCapacityOf(e.pub_cap), "C02:datum-exceeds-published-capacity")
          \cup If(\E i \in DOMAIN e.pub_aligns : ~AlignCovers(e.pub_aligns[i]),
                  "C02:record-alignment-not-multiple-of-datum-alignment")
          \cup If(~AllEqual(e.pub_aligns), "C03:generated-types-have-different-alignments")
          \cup If(e.max_size # MaxSize \/ e.max_align # MaxAlign
                  \/ (e.display = "panic") # DisplayPanics, "DRIFT:observers"))

MemoOf == [variants |-> e.variants, offs |-> ObsOffs, code |-> e.code_hash, disp |-> e.display_hash]
MemoTags ==
  IF memo = <<>> THEN {}
  ELSE If(memo.variants # e.variants \/ memo.offs # ObsOffs,
          IF run = 3 THEN "C18:layout-depends-on-more-than-the-resolvers-answers"
          ELSE IF run >= 5 THEN "C18:layout-differs-on-another-host-although-the-resolver-answers-are-the-same"
          ELSE "C19:offsets-differ-between-replays")
       \cup If(run < 5 /\ (memo.code # e.code_hash \/ memo.disp # e.display_hash),
               "C19:generated-text-differs-between-replays")
       \cup If(run >= 5 /\ memo.disp # e.display_hash,
               "C18:rendering-of-the-definition-differs-on-another-host")

TraceBuild ==
  /\ ~dead /\ e.ev = "build"
  /\ Same
  /\ last' = [op |-> "build", res |-> e.res]
  /\ UNCHANGED <<hid, run>>
  /\ IF e.res = "panic"
     THEN /\ dead' = TRUE /\ UNCHANGED <<memo, cmemo, cidx, src>>
          /\ Consume(If(CanBuild, "C12:build-rejected-although-nothing-pending"))
     ELSE /\ dead' = FALSE
          /\ memo' = IF memo = <<>> THEN MemoOf ELSE memo
          /\ UNCHANGED <<cmemo, cidx>>
          /\ src' = [defs |-> defs, variants |-> variants]
          /\ Consume(If(~CanBuild, "C12:build-accepted-with-unclosed-changes")
                \cup BuiltTags \cup MemoTags)

------------------------------------------------------------------------------
\* C20: the closure calls between convert_begin and convert_end are ordinary builder
\* events on a second builder
TraceConvertBegin ==
  /\ e.ev = "convert_begin" /\ src # <<>>
  /\ kind' = e.target /\ defs' = <<>> /\ variants' = <<>> /\ toAdd' = <<>> /\ toRemove' = {}
  /\ last' = [op |-> "init"]
  /\ dead' = FALSE
  /\ UNCHANGED <<hid, run, memo, cmemo, cidx, src>>
  /\ Consume({})

VMapOk == \A i \in DOMAIN e.map : e.map[i][1] = i
VMap == [i \in DOMAIN e.map |-> e.map[i][2]]

TraceConvertEnd ==
  /\ ~dead /\ e.ev = "convert_end"
  /\ Same /\ UNCHANGED <<last, dead, hid, run, memo, src>>
  /\ cidx' = cidx + 1
  /\ cmemo' = IF run = 1 /\ e.cres = "ok" /\ e.res = "ok"
              THEN Append(cmemo, [variants |-> e.variants, offs |-> ObsOffs, code |-> e.code_hash])
              ELSE IF run = 1 THEN Append(cmemo, <<>>) ELSE cmemo
  \* `injected` > 0: the driver made that add closure return an error (behaviour beyond the listed
  \* properties, judged for information only: EXT tags are never verdicts)
  /\ IF e.cres # "ok"
     THEN Consume(IF e.injected > 0
                  THEN If(e.cres # "err", "EXT:helper-did-not-report-the-failure-of-a-closure-as-an-error")
                       \cup If(e.after > 0, "EXT:closure-called-after-a-closure-returned-an-error")
                  ELSE {"C20:helper-failed-on-a-valid-definition"})
     ELSE IF e.res = "panic" THEN Consume({"C20:target-left-with-unclosed-changes"})
     ELSE LET closed == "strategy" \in DOMAIN last      \* the target saw at least one close
              m == ConvertModel(src.defs, src.variants, kind, last.strategy) IN
          Consume(If(e.variants # variants \/ ~SameButOffsets(ObsDefs, defs),
                     "C12:built-target-differs-from-builder-state")
             \cup If(~VMapOk \/ Len(e.map) # Len(src.variants), "C20:variant-map-incomplete")
             \cup If(VMapOk /\ ~ConvertPreserves(src.defs, src.variants, ObsDefs, e.variants, VMap),
                     "C20:replayed-definition-not-preserved")
             \cup LayoutTags
             \cup If(run # 1 /\ cidx + 1 \in DOMAIN cmemo /\ cmemo[cidx + 1] # <<>>
                     /\ (cmemo[cidx + 1].variants # e.variants \/ cmemo[cidx + 1].offs # ObsOffs
                         \/ cmemo[cidx + 1].code # e.code_hash),
                     "C19:replaying-a-definition-through-the-helper-differs-between-runs")
             \cup If(Len(src.variants) > 0 /\ closed
                     /\ (m.b.variants # e.variants \/ m.b.defs # ObsDefs), "DRIFT:convert"))

------------------------------------------------------------------------------
TraceNext ==
  /\ l <= Len(Rec)
  /\ \/ TraceReset \/ TraceSkip \/ TraceAdd \/ TraceRemove \/ TraceClose \/ TraceQuery
     \/ TraceBuild \/ TraceConvertBegin \/ TraceConvertEnd

TraceSpec == TraceInit /\ [][TraceNext]_tvars

(* The verdict is printed once, in the state that consumed the last line.  *)
Report ==
  (l = Len(Rec) + 1) =>
     PrintT(<<"VERDICT", ToJson([consumed |-> l - 1, total |-> Len(Rec), bad |-> bad])>>)

(* Acceptance: every line was consumed (one state per line + the initial). *)
TraceAccepted ==
  LET d == TLCGet("stats").diameter IN
  IF d - 1 = Len(Rec) THEN TRUE
  ELSE /\ PrintT(<<"UNMATCHED", d, IF d <= Len(Rec) THEN ToJson(Rec[d]) ELSE "none">>)
       /\ FALSE
=============================================================================
