SPECIFICATION RSpec
CONSTANTS
  Quirks = {}
  RQuirks = {}
  KindNames = {"T", "Pu", "Z"}
  Strats = {"simple"}
  MaxOps = 3
INVARIANTS Emit NoGuardViolation Link DestroyedAtMostOnce
CHECK_DEADLOCK FALSE
