SPECIFICATION TraceSpec
CONSTANTS
  Quirks = {}
INVARIANT Report
POSTCONDITION TraceAccepted
CHECK_DEADLOCK FALSE
