SPECIFICATION Spec
CONSTANTS
  VQuirks = {"leak_buffer", "replace_payload"}
  N = 4
INVARIANTS ThreeRegions CallsInOrderExactlyOnce PrevIsLastOutput ResultIsOutputsInOrder AllocationReused NeverDroppedTwice AllDroppedAtEnd BufferFreedAtEnd NoCallAfterFailure SamePayload RefusedBeforeAnyRead
CHECK_DEADLOCK FALSE
