SPECIFICATION Spec
CONSTANTS
  Quirks = {}
  Kind = "native"
  ShapeSet = "tiny"
  Strategies = {"simple", "basic", "append", "append_rev"}
  NameMode = "fresh"
  NamePool = 0
  Uninits = {FALSE}
  AllowBad = FALSE
  MaxData = 3
  MaxVariants = 3
  MaxAddsPerVariant = 3
  CheckConvert = TRUE
VIEW ViewFull
INVARIANTS TypeOK NoOverlap Placed Aligned NonZstStrictlyIncreasing WithinCapacity RecordAlignCoversAll AddressOrdered IdsNeverReused NamesUniquePerVariant TotalOnAccepted ConvertInv
PROPERTIES NeverMoves Frame VariantMembership NoopCloseCreatesNothing
CHECK_DEADLOCK FALSE
