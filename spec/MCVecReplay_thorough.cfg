SPECIFICATION RSpec
CONSTANTS
  VQuirks = {}
  N = 3
INVARIANTS Emit ThreeRegions CallsInOrderExactlyOnce PrevIsLastOutput ResultIsOutputsInOrder NeverDroppedTwice AllDroppedAtEnd BufferFreedAtEnd SamePayload
CHECK_DEADLOCK FALSE
