------------------------------- MODULE Layout -------------------------------
(***************************************************************************)
(* Datum shapes, the round-up used by every placement, and the four        *)
(* shipped variant-closing strategies of arnodb/truc transcribed from      *)
(*   truc/src/record/definition/builder/native/variant/{mod,dummy,basic,   *)
(*   simple}.rs                                                            *)
(* together with the contract every strategy owes its caller.              *)
(*                                                                         *)
(* Conventions: datum ids and list indices are 1-based (code id + 1);      *)
(* UNSET stands for the usize::MAX sentinel offset of a datum that no      *)
(* strategy has placed yet.  A definition table `d` is a sequence of       *)
(* records [name, size, align, uninit, off]; a variant `list` is a         *)
(* sequence of ids.                                                        *)
(***************************************************************************)
EXTENDS Naturals, Sequences, FiniteSets

CONSTANT Quirks   \* subset of {"zst_skip", "maxsize_all_defs"}: deviations of the
                  \* pinned tree that were repaired by "fix:" commits; {} = current tree

UNSET == 1000000

AlignBytes(c, a) == ((c + a - 1) \div a) * a          \* variant/mod.rs:71

SeqToSet(s) == {s[i] : i \in DOMAIN s}
NoDup(s) == \A i, j \in DOMAIN s : i # j => s[i] # s[j]
InsertAt(s, i, x) == SubSeq(s, 1, i - 1) \o <<x>> \o SubSeq(s, i, Len(s))
Rev(s) == [i \in DOMAIN s |-> s[Len(s) + 1 - i]]
Without(s, rm) == SelectSeq(s, LAMBDA x : x \notin rm)

\* end(): offset + size of the LAST listed datum (variant/mod.rs:34)
End(list, d) == IF list = <<>> THEN 0
                ELSE d[list[Len(list)]].off + d[list[Len(list)]].size

\* push_datum: <<list', d', end, offset>> (variant/mod.rs:52)
Push(list, d, id) ==
  LET e == End(list, d)
      off == AlignBytes(e, d[id].align)
  IN <<Append(list, id), [d EXCEPT ![id].off = off], e, off>>

------------------------------------------------------------------------------
(* append_data / append_data_reverse (dummy.rs)                            *)
RECURSIVE AppendAll(_, _, _)
AppendAll(list, d, adds) ==
  IF adds = <<>> THEN <<list, d>>
  ELSE LET p == Push(list, d, Head(adds)) IN AppendAll(p[1], p[2], Tail(adds))

------------------------------------------------------------------------------
(* basic (basic.rs): a data caret and a byte caret that persist across the *)
(* data being added; the three-way case analysis is kept verbatim.         *)
RECURSIVE BasicWalk(_, _, _, _, _)
BasicWalk(list, d, dc, bc, id) ==
  IF dc > Len(list) THEN <<dc, bc>>
  ELSE LET c == d[list[dc]] IN
       IF c.off = bc THEN BasicWalk(list, d, dc + 1, bc + c.size, id)
       ELSE LET b2 == AlignBytes(bc, d[id].align) IN
            IF b2 + d[id].size <= c.off THEN <<dc, b2>>
            ELSE BasicWalk(list, d, dc + 1, c.off + c.size, id)

RECURSIVE BasicAll(_, _, _, _, _)
BasicAll(list, d, adds, dc, bc) ==
  IF adds = <<>> THEN <<list, d>>
  ELSE LET id == Head(adds)
           w == BasicWalk(list, d, dc, bc, id)
           off == AlignBytes(w[2], d[id].align)
       IN BasicAll(InsertAt(list, w[1], id), [d EXCEPT ![id].off = off],
                   Tail(adds), w[1], off)

------------------------------------------------------------------------------
(* simple (simple.rs)                                                      *)
(* a gap is [s, e, di]: bytes [s, e) are free; di = index in the list of   *)
(* the datum that follows the gap                                          *)
RECURSIVE InitGaps(_, _, _, _)
InitGaps(list, d, i, lastOff) ==                      \* compute_initial_gaps
  IF i > Len(list) THEN <<>>
  ELSE LET x == d[list[i]] IN
       IF "zst_skip" \in Quirks /\ x.size = 0          \* pinned tree: "Ignore empty data"
       THEN InitGaps(list, d, i + 1, lastOff)
       ELSE IF x.off > lastOff
            THEN <<[s |-> lastOff, e |-> x.off, di |-> i]>>
                 \o InitGaps(list, d, i + 1, x.off + x.size)
            ELSE InitGaps(list, d, i + 1, x.off + x.size)

\* BTreeMap<size, Vec<id>> iterated by decreasing size: stable within a size
Sizes(d, adds) == {d[adds[i]].size : i \in DOMAIN adds}
RECURSIVE SortDesc(_, _, _)
SortDesc(d, adds, sizes) ==
  IF sizes = {} THEN <<>>
  ELSE LET m == CHOOSE x \in sizes : \A y \in sizes : y <= x
       IN SelectSeq(adds, LAMBDA id : d[id].size = m) \o SortDesc(d, adds, sizes \ {m})

\* select_best: 1 = first wins, 2 = second wins
RECURSIVE SelBest(_, _)
SelBest(a, b) ==
  IF a = 0 THEN 1 ELSE IF b = 0 THEN 2
  ELSE IF b % 2 = 1 THEN 1 ELSE IF a % 2 = 1 THEN 2
  ELSE SelBest(a \div 2, b \div 2)

\* fit_datum_to_gap: <<>> or a one-element sequence
Fit(gi, g, x) ==
  LET ds == AlignBytes(g.s, x.align)
      de == ds + x.size
  IN IF g.e >= de
     THEN <<[kind |-> "S", gi |-> gi, before |-> ds - g.s, after |-> g.e - de,
             ds |-> ds, de |-> de]>>
     ELSE <<>>

SelVal(f) == IF f.kind = "S" THEN f.de ELSE f.ds       \* selection_value

StartOrEnd(f, al) ==                                   \* select_start_or_end_of_gap
  LET delta == (f.after \div al) * al IN
  IF delta > 0
  THEN IF SelBest(f.de, f.ds + delta) = 1 THEN f
       ELSE [kind |-> "E", gi |-> f.gi, before |-> f.before + delta,
             after |-> f.after - delta, ds |-> f.ds + delta, de |-> f.de + delta]
  ELSE f

\* loop over the gaps with the early exit on an exact fit
RECURSIVE Collect(_, _, _)
Collect(gaps, gi, x) ==
  IF gi > Len(gaps) THEN <<>>
  ELSE LET g == gaps[gi] IN
       IF g.e - g.s < x.size THEN Collect(gaps, gi + 1, x)
       ELSE LET f == Fit(gi, g, x) IN
            IF f = <<>> THEN Collect(gaps, gi + 1, x)
            ELSE IF f[1].before = 0 /\ f[1].after = 0 THEN f
                 ELSE f \o Collect(gaps, gi + 1, x)

RECURSIVE FoldBest(_, _, _)
FoldBest(prev, rest, al) ==
  IF rest = <<>> THEN prev
  ELSE LET sc == StartOrEnd(Head(rest), al) IN
       FoldBest(IF SelBest(SelVal(prev), SelVal(sc)) = 1 THEN prev ELSE sc, Tail(rest), al)

ShiftFrom(gaps, k) ==
  [i \in DOMAIN gaps |-> IF i >= k THEN [gaps[i] EXCEPT !.di = @ + 1] ELSE gaps[i]]

RECURSIVE SimpleAll(_, _, _, _)
SimpleAll(list, d, gaps, adds) ==
  IF adds = <<>> THEN <<list, d>>
  ELSE LET id == Head(adds)
           x == d[id]
           fitted == Collect(gaps, 1, x)
       IN IF fitted # <<>>
          THEN LET wastes == {fitted[i].before + fitted[i].after : i \in DOMAIN fitted}
                   minw == CHOOSE w \in wastes : \A w2 \in wastes : w <= w2
                   cands == SelectSeq(fitted, LAMBDA f : f.before + f.after = minw)
                   ch == FoldBest(StartOrEnd(Head(cands), x.align), Tail(cands), x.align)
                   g == gaps[ch.gi]
                   gb == IF ch.before > 0
                         THEN <<[s |-> g.s, e |-> g.s + ch.before, di |-> g.di]>> ELSE <<>>
                   ga == IF ch.after > 0
                         THEN <<[s |-> ch.de, e |-> g.e, di |-> g.di + 1]>> ELSE <<>>
                   repl == gb \o ga
                   gaps1 == SubSeq(gaps, 1, ch.gi - 1) \o repl \o SubSeq(gaps, ch.gi + 1, Len(gaps))
                   gaps2 == ShiftFrom(gaps1, ch.gi + Len(repl))
               IN SimpleAll(InsertAt(list, g.di, id), [d EXCEPT ![id].off = ch.ds],
                            gaps2, Tail(adds))
          ELSE LET p == Push(list, d, id)
                   gaps1 == IF p[4] > p[3]
                            THEN Append(gaps, [s |-> p[3], e |-> p[4], di |-> Len(p[1])])
                            ELSE gaps
               IN SimpleAll(p[1], p[2], gaps1, Tail(adds))

Simple(list, d, adds) ==
  SimpleAll(list, d, InitGaps(list, d, 1, 0), SortDesc(d, adds, Sizes(d, adds)))

------------------------------------------------------------------------------
StrategyNames == {"simple", "basic", "append", "append_rev"}

\* <<list', d'>> : `kept` is the previous variant minus the removals
NativeStrategy(s, kept, d, adds) ==
  CASE s = "append"     -> AppendAll(kept, d, adds)
    [] s = "append_rev" -> AppendAll(kept, d, Rev(adds))
    [] s = "basic"      -> BasicAll(kept, d, adds, 1, 0)
    [] s = "simple"     -> Simple(kept, d, adds)

\* generic builders: list manipulation only (generic/variant/dummy.rs)
GenericStrategy(s, kept, d, adds) ==
  CASE s = "append"     -> <<kept \o adds, d>>
    [] s = "append_rev" -> <<kept \o Rev(adds), d>>

------------------------------------------------------------------------------
(* Layout facts about ONE variant `list` under definitions `d`             *)
Disjoint(a, b) == a.off + a.size <= b.off \/ b.off + b.size <= a.off

NoOverlapIn(list, d) ==
  \A i, j \in DOMAIN list :
     i < j => LET a == d[list[i]]  b == d[list[j]] IN
              (a.size > 0 /\ b.size > 0) => Disjoint(a, b)

AlignedIn(list, d) == \A i \in DOMAIN list : d[list[i]].off % d[list[i]].align = 0

PlacedIn(list, d) == \A i \in DOMAIN list : d[list[i]].off # UNSET

NonZst(list, d) == SelectSeq(list, LAMBDA id : d[id].size > 0)
NonZstIncreasingIn(list, d) ==
  LET nz == NonZst(list, d) IN
  \A i \in 1..(Len(nz) - 1) : d[nz[i]].off < d[nz[i + 1]].off

\* what the strategies silently RELY on: every listed datum (zero-size ones
\* included) ends before the next one starts
AddressOrderedIn(list, d) ==
  \A i \in 1..(Len(list) - 1) :
     d[list[i]].off + d[list[i]].size <= d[list[i + 1]].off

EndOf(list, d) ==
  LET ends == {d[list[i]].off + d[list[i]].size : i \in DOMAIN list} IN
  IF ends = {} THEN 0 ELSE CHOOSE m \in ends : \A e \in ends : e <= m

(* what any strategy owes its caller *)
Contract(kept, adds, d, list2, d2) ==
  /\ NoDup(list2)
  /\ SeqToSet(list2) = SeqToSet(kept) \cup SeqToSet(adds)
  /\ Len(d2) = Len(d)
  /\ \A i \in DOMAIN d :
        IF i \in SeqToSet(adds)
        THEN d2[i] = [d[i] EXCEPT !.off = d2[i].off]
        ELSE d2[i] = d[i]
  /\ PlacedIn(list2, d2) /\ AlignedIn(list2, d2)
  /\ NoOverlapIn(list2, d2) /\ NonZstIncreasingIn(list2, d2)
=============================================================================
