------------------------------- MODULE Record -------------------------------
(***************************************************************************)
(* What the generated record interface MEANS (abstract level) and what     *)
(* the generated code DOES to the byte buffer (implementation level), for  *)
(* one definition.                                                         *)
(*                                                                         *)
(* A definition is a record [variants, cap, align] where variants is a     *)
(* sequence (one entry per record variant, in order) of                    *)
(*   [fields : sequence of field records sorted by datum id,               *)
(*    plus, minus : sequences of datum ids added / removed w.r.t. the      *)
(*                  previous variant]                                      *)
(* and a field is [fid, key, off, size, align, uninit, tracked, droppable, *)
(* copy, send, sync].  This is exactly the JSON harness/genlab_gen writes  *)
(* from the definition the REAL builder produced, and what MCRecord builds *)
(* from a layout of Builder.tla.                                           *)
(*                                                                         *)
(* Abstract level: a record value is [v, vals] with vals a function from   *)
(* the ids of its INITIALISED fields to [serial, payload] (serial 0 for    *)
(* values of plain Copy types, which have no identity).                    *)
(* Implementation level: the buffer of a record is a set of extents        *)
(* [off, size, fid, droppable]: "a value of field fid is stored at         *)
(* [off, off+size)".  The templates of the generator                      *)
(* (truc/src/generator/fragment/*.rs) are sequences of the four unsafe     *)
(* primitives of truc_runtime/src/data.rs; each primitive has a safety     *)
(* guard over the extents (C07).                                           *)
(***************************************************************************)
EXTENDS Naturals, Sequences, FiniteSets, TLC

Range(s) == {s[i] : i \in DOMAIN s}
RECURSIVE SortedSeq(_)
SortedSeq(S) ==      \* the elements of a finite set of numbers in increasing order
  IF S = {} THEN <<>>
  ELSE LET m == CHOOSE x \in S : \A y \in S : x <= y IN <<m>> \o SortedSeq(S \ {m})

FieldsOf(def, v)   == def.variants[v].fields
FidsOf(def, v)     == {FieldsOf(def, v)[i].fid : i \in DOMAIN FieldsOf(def, v)}
Field(def, v, fid) == CHOOSE f \in Range(FieldsOf(def, v)) : f.fid = fid
PlusOf(def, v)     == Range(def.variants[v].plus)
MinusOf(def, v)    == Range(def.variants[v].minus)
Mandatory(def, v)  == {f.fid : f \in {g \in Range(FieldsOf(def, v)) : ~g.uninit}}
MandatoryPlus(def, v) == PlusOf(def, v) \cap Mandatory(def, v)
NVariants(def)     == Len(def.variants)

------------------------------------------------------------------------------
(* Abstract meaning of the interface (C04, C05, C06, C15, C16)             *)

\* record built from values for the field set F (all fields / mandatory ones)
NewVals(F, given) == [fid \in F |-> given[fid]]

\* conversion of a record of variant v to variant v + 1: carried-over fields keep their
\* value, added fields (those supplied) get the supplied values
ConvertVals(def, v, vals, given) ==
  LET carried == (DOMAIN vals) \ MinusOf(def, v + 1)
      added == DOMAIN given
  IN [fid \in carried \cup added |-> IF fid \in added THEN given[fid] ELSE vals[fid]]
\* the removed fields that held a value: handed back, or destroyed by the conversion
RemovedVals(def, v, vals) == [fid \in (DOMAIN vals) \cap MinusOf(def, v + 1) |-> vals[fid]]

------------------------------------------------------------------------------
(* Implementation level: templates as sequences of primitive operations     *)
(* [k, fid] on a named buffer; k \in {"read","write","get","get_mut"}.      *)

\* constructors: write each (mandatory) field into a fresh temporary buffer (record_impl.rs:21-79)
TplNew(def, v, F) ==
  [i \in DOMAIN FieldsOf(def, v) |->
     [k |-> IF FieldsOf(def, v)[i].fid \in F THEN "write" ELSE "skip", fid |-> FieldsOf(def, v)[i].fid]]
\* unpack / Drop: read every field of the variant (record_impl.rs:81-110, drop_impl.rs:9-29)
TplReadAll(def, v) ==
  [i \in DOMAIN FieldsOf(def, v) |-> [k |-> "read", fid |-> FieldsOf(def, v)[i].fid]]
\* conversion: read the removed fields of the OLD record first, then copy the buffer, then
\* write the added fields into the copy (from_previous_record_impls.rs:67-139)
TplConvertReads(def, v) ==
  [i \in DOMAIN def.variants[v + 1].minus |-> [k |-> "read", fid |-> def.variants[v + 1].minus[i]]]
TplConvertWrites(def, v, F) ==
  [i \in DOMAIN def.variants[v + 1].plus |->
     [k |-> IF def.variants[v + 1].plus[i] \in F THEN "write" ELSE "skip", fid |-> def.variants[v + 1].plus[i]]]

(* Extents and the safety guards of the primitives                          *)
Overlaps(x, off, size) == x.size > 0 /\ size > 0 /\ x.off < off + size /\ off < x.off + x.size
Exact(ext, off, size, fid) == \E x \in ext : x.off = off /\ x.size = size /\ x.fid = fid

\* a primitive of `size` bytes at `off` for a field that is (not) droppable, on a buffer of
\* `cap` bytes whose current extents are `ext`; `amod` = (address + off) mod alignment
InBounds(off, size, cap) == off + size <= cap
ReadOk(ext, off, size, fid, droppable) == droppable => Exact(ext, off, size, fid)
RefOk(ext, off, size, fid, droppable)  == droppable => Exact(ext, off, size, fid)
WriteOk(ext, off, size) == ~\E x \in ext : x.droppable /\ Overlaps(x, off, size)
AfterRead(ext, off, size, fid, droppable) ==
  IF droppable THEN {x \in ext : ~(x.off = off /\ x.size = size /\ x.fid = fid)} ELSE ext
AfterWrite(ext, off, size, fid, droppable) ==
  {x \in ext : ~Overlaps(x, off, size) /\ ~(x.fid = fid)} \cup
  {[off |-> off, size |-> size, fid |-> fid, droppable |-> droppable]}

\* link between the two levels: the buffer of a record holding `vals` stores exactly its
\* initialised fields, each at its own offset, and no droppable value besides
ExtentsOf(def, v, vals) ==
  {[off |-> Field(def, v, fid).off, size |-> Field(def, v, fid).size, fid |-> fid,
    droppable |-> Field(def, v, fid).droppable] : fid \in DOMAIN vals}
Agrees(def, v, vals, ext) ==
  /\ \A x \in ExtentsOf(def, v, vals) : x.droppable => x \in ext
  /\ \A x \in ext : x.droppable => x \in ExtentsOf(def, v, vals)

------------------------------------------------------------------------------
(* Facts about a definition as a whole (C03 second sentence, C07 capacity, C14) *)
RoundUp(x, a) == ((x + a - 1) \div a) * a
SizeOfRecord(cap, align) == RoundUp(cap, align)
FieldsFit(def, cap) ==
  \A v \in DOMAIN def.variants : \A f \in Range(FieldsOf(def, v)) : f.off + f.size <= cap
FieldsAligned(def, align) ==
  \A v \in DOMAIN def.variants : \A f \in Range(FieldsOf(def, v)) :
     f.off % f.align = 0 /\ align % f.align = 0
AutoSend(def, v) == \A f \in Range(FieldsOf(def, v)) : f.send
AutoSync(def, v) == \A f \in Range(FieldsOf(def, v)) : f.sync
=============================================================================
