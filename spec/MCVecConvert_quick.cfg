SPECIFICATION Spec
CONSTANTS
  VQuirks = {}
  N = 5
INVARIANTS ThreeRegions CallsInOrderExactlyOnce PrevIsLastOutput ResultIsOutputsInOrder AllocationReused NeverDroppedTwice AllDroppedAtEnd BufferFreedAtEnd NoCallAfterFailure SamePayload RefusedBeforeAnyRead
CHECK_DEADLOCK FALSE
