SPECIFICATION Spec
CONSTANTS
  Quirks = {}
  RQuirks = {}
  KindNames = {"T", "B", "D3", "P", "Pu", "O", "Z", "ZD", "W"}
  Strats = {"simple", "basic", "append_rev"}
  MaxOps = 6
INVARIANTS LayoutOk NoGuardViolation Link DestroyedAtMostOnce LedgerConsistent NothingLeakedAtQuiescence FitsPublishedCapacity
CHECK_DEADLOCK FALSE
