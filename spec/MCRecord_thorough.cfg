SPECIFICATION Spec
CONSTANTS
  Quirks = {}
  RQuirks = {}
  KindNames = {"T", "D3", "Pu", "O", "Z", "ZD", "W"}
  Strats = {"simple", "basic"}
  MaxOps = 5
INVARIANTS LayoutOk NoGuardViolation Link DestroyedAtMostOnce LedgerConsistent NothingLeakedAtQuiescence FitsPublishedCapacity
CHECK_DEADLOCK FALSE
