--------------------------- MODULE MCBuilderCfg    ---------------------------
(* Concrete shape sets and the next-state relation for the .cfg files below   *)
EXTENDS MCBuilder
CONSTANT ShapeSet
SH == CASE ShapeSet = "quick"   -> {<<0,1>>, <<1,1>>, <<2,2>>, <<4,4>>, <<12,4>>}
        [] ShapeSet = "zst"     -> {<<0,1>>, <<0,4>>, <<1,1>>, <<4,4>>}
        [] ShapeSet = "wide"    -> {<<0,1>>, <<1,1>>, <<3,1>>, <<2,2>>, <<4,4>>, <<8,8>>, <<24,8>>, <<16,16>>}
        [] ShapeSet = "tiny"    -> {<<0,1>>, <<1,1>>, <<4,4>>}
        [] ShapeSet = "req"     -> {<<1,1>>, <<4,4>>}
        [] ShapeSet = "replay"  -> {<<0,1>>, <<1,1>>, <<2,2>>, <<4,4>>}
        [] ShapeSet = "odd"     -> {<<0,8>>, <<3,1>>, <<6,2>>, <<12,4>>, <<8,8>>}
Next == MCNext(SH)
Spec == MCInit /\ [][Next]_bvars
=============================================================================
