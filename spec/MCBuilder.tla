------------------------------ MODULE MCBuilder ------------------------------
(***************************************************************************)
(* Bounded model of the builder for TLC: every request (valid and, when    *)
(* AllowBad, invalid) is enabled in every state, every close may use any   *)
(* of the strategies in Strategies.                                        *)
(***************************************************************************)
EXTENDS Builder, Json

CONSTANTS
  Kind,                \* "native" | "generic"
  Strategies,          \* subset of StrategyNames
  NameMode,            \* "fresh": the name of datum i is i ; "pool": drawn from 1..NamePool
  NamePool,
  Uninits,             \* subset of BOOLEAN
  AllowBad,            \* enable rejected requests too
  MaxData, MaxVariants, MaxAddsPerVariant,
  CheckConvert         \* evaluate the C20 invariant at buildable states

\* the set of shapes <<size, align>> is a parameter of MCNext: tuples cannot be
\* written in a .cfg file, so each configuration module defines its own set

NamesFor == IF NameMode = "fresh" THEN {Len(defs) + 1} ELSE 1..NamePool

Budget == Len(variants) < MaxVariants

MCInit == BInit(Kind)

MCNext(SH) ==
  \/ /\ Budget /\ Len(defs) < MaxData /\ Len(toAdd) < MaxAddsPerVariant
     /\ \E n \in NamesFor, sh \in SH, u \in Uninits : AddOk(n, sh[1], sh[2], u)
  \/ /\ Budget /\ AllowBad
     /\ \E n \in NamesFor, sh \in SH, u \in Uninits : AddRejected(n, sh[1], sh[2], u)
  \/ /\ Budget
     /\ \E id \in DOMAIN defs : RemoveCarried(id) \/ RemovePending(id)
  \/ /\ Budget /\ AllowBad
     /\ \E id \in 1..(Len(defs) + 1) : RemoveRejected(id)
  \/ /\ Budget
     /\ \E s \in Strategies : CloseNew(s)
  \/ /\ AllowBad /\ \E s \in Strategies : CloseNoop(s)
  \/ BuildOk
  \/ AllowBad /\ BuildRejected

(* The view forgets `last` (an observation, not state). *)
ViewFull == <<kind, defs, variants, toAdd, toRemove>>

(* A coarser view for the layout-only configurations: the strategies read   *)
(* only the current variant and the pending lists, so states that differ    *)
(* only in data that already left the record, or in the numbering of ids,   *)
(* behave identically.  The facts about older variants were checked when    *)
(* they were the current one and cannot change (NeverMoves is checked on    *)
(* every explored step).                                                    *)
Proj(id) == <<defs[id].size, defs[id].align, defs[id].off>>
ViewCurrent ==
  << [i \in DOMAIN LastVariant |-> <<Proj(LastVariant[i]), LastVariant[i] \in toRemove>>],
     [i \in DOMAIN toAdd |-> Proj(toAdd[i])],
     Len(variants), Len(defs) >>

(* C20 on the design: every buildable definition, replayed through the      *)
(* helper into every kind of builder with every strategy, is preserved.     *)
ConvertInv ==
  (CheckConvert /\ CanBuild) =>
     /\ \A s \in Strategies :
          LET r == ConvertModel(defs, variants, "native", s) IN
          ConvertPreserves(defs, variants, r.b.defs, r.b.variants,
                           [v \in DOMAIN variants |-> v])
     /\ \A s \in {"append", "append_rev"} :
          LET r == ConvertModel(defs, variants, "generic", s) IN
          ConvertPreserves(defs, variants, r.b.defs, r.b.variants,
                           [v \in DOMAIN variants |-> v])
=============================================================================
