------------------------------ MODULE VecConvert ------------------------------
(***************************************************************************)
(* truc_runtime::convert::try_convert_vec_in_place as a state machine      *)
(* (truc_runtime/src/convert.rs).                                          *)
(*                                                                         *)
(* One buffer of n cells, two indices, a converter call in the middle:     *)
(*   cells [1, firstMoved]           outputs (type U) already stored       *)
(*   cells (firstMoved, firstTtt]    dead (moved out / abandoned)          *)
(*   cells (firstTtt, n]             inputs (type T) not yet consumed      *)
(* The converter owns the input it was given and whatever output it built  *)
(* until it returns; what it does with them (drop the input early or late, *)
(* touch the previous output, build an output and then fail) is left to    *)
(* nondeterminism.  Every value carries an identity and a drop counter, so *)
(* "exactly once" is a state predicate.                                    *)
(*                                                                         *)
(* VQuirks names the deviations of the pinned tree that were repaired:     *)
(*   "leak_buffer"      the emptied vector was never released on failure   *)
(*   "replace_payload"  a panic was re-raised with a new payload           *)
(***************************************************************************)
EXTENDS Naturals, Sequences, FiniteSets, TLC

CONSTANTS VQuirks

VARIABLES
  n,           \* length of the input vector
  mismatch,    \* size_of / align_of of T and U differ
  hasbuf,      \* the vector owns a heap allocation (false for n = 0 or zero-size elements)
  cells,       \* sequence of [k, id], k \in {"T", "U", "dead"}
  firstMoved, firstTtt,
  pc,          \* "check" | "loop" | "incall" | "store" | "cleanup" | "caller" | "end"
  owned,       \* values owned by the converter's frame: set of <<"T"|"U", id>>
  pending,     \* output returned by the converter, not stored yet (0 = none)
  flags,       \* what the converter already did in the current call: subset of {"touched", "made"}
  dT, dU,      \* drop counters of inputs (1..n) and outputs (1..nextU-1)
  payload,     \* current payload version of every output
  nextU,       \* next output id
  outs,        \* outputs stored so far, in order
  calls,       \* converter calls so far: <<input id, previous output id or 0, outputs stored before>>
  buffer,      \* "vec" (input vector) | "function" | "result" | "freed"
  fail,        \* <<>> or [kind |-> "err"|"panic", id |-> failure value id]
  result       \* <<>> or [kind, ids, payloads, fid]

vvars == <<n, mismatch, hasbuf, cells, firstMoved, firstTtt, pc, owned, pending, flags, dT, dU, payload,
           nextU, outs, calls, buffer, fail, result>>

VInit(len, mm, hb) ==
  /\ n = len /\ mismatch = mm /\ hasbuf = hb
  /\ cells = [i \in 1..len |-> [k |-> "T", id |-> i]]
  /\ firstMoved = 0 /\ firstTtt = 0 /\ pc = "check"
  /\ owned = {} /\ pending = 0 /\ flags = {}
  /\ dT = [i \in 1..len |-> 0] /\ dU = <<>> /\ payload = <<>>
  /\ nextU = 1 /\ outs = <<>> /\ calls = <<>>
  /\ buffer = "vec" /\ fail = <<>> /\ result = <<>>

PrevOut == IF firstMoved > 0 THEN cells[firstMoved].id ELSE 0
Bump(f, i) == [f EXCEPT ![i] = @ + 1]
Dead == [k |-> "dead", id |-> 0]

------------------------------------------------------------------------------
(* the two assertions ahead of everything (convert.rs:51-67)               *)
CheckOk ==
  /\ pc = "check" /\ ~mismatch
  /\ pc' = "loop" /\ buffer' = "function"      \* ManuallyDrop::new(input)
  /\ UNCHANGED <<flags, n, mismatch, hasbuf, cells, firstMoved, firstTtt, owned, pending, dT, dU, payload,
                 nextU, outs, calls, fail, result>>
Refuse ==      \* panic before anything is read; the input vector is dropped by unwinding
  /\ pc = "check" /\ mismatch
  /\ pc' = "cleanup" /\ fail' = [kind |-> "panic", id |-> 0]
  /\ UNCHANGED <<flags, n, mismatch, hasbuf, cells, firstMoved, firstTtt, owned, pending, dT, dU, payload,
                 nextU, outs, calls, buffer, result>>

------------------------------------------------------------------------------
(* one iteration: take the next input out of the buffer, call the converter *)
CanTake == pc = "loop" /\ firstTtt < n
DoTakeCall ==
  /\ owned' = {<<"T", cells[firstTtt + 1].id>>}
  /\ cells' = [cells EXCEPT ![firstTtt + 1] = Dead]
  /\ firstTtt' = firstTtt + 1
  /\ calls' = Append(calls, <<cells[firstTtt + 1].id, PrevOut, Len(outs)>>)
  /\ pc' = "incall" /\ flags' = {}
  /\ UNCHANGED <<n, mismatch, hasbuf, firstMoved, pending, dT, dU, payload, nextU, outs, buffer, fail, result>>
TakeCall == CanTake /\ DoTakeCall

(* inside the converter *)
DoDropOwned(x) ==
  /\ owned' = owned \ {x}
  /\ IF x[1] = "T" THEN dT' = Bump(dT, x[2]) /\ UNCHANGED dU
                   ELSE dU' = Bump(dU, x[2]) /\ UNCHANGED dT
  /\ UNCHANGED <<flags, n, mismatch, hasbuf, cells, firstMoved, firstTtt, pc, pending, payload, nextU, outs,
                 calls, buffer, fail, result>>
DropOwned(x) == pc \in {"incall", "cleanup"} /\ x \in owned /\ DoDropOwned(x)

CanTouch == pc = "incall" /\ PrevOut # 0 /\ "touched" \notin flags
DoTouch ==
  /\ payload' = Bump(payload, PrevOut) /\ flags' = flags \cup {"touched"}
  /\ UNCHANGED <<n, mismatch, hasbuf, cells, firstMoved, firstTtt, pc, owned, pending, dT, dU, nextU,
                 outs, calls, buffer, fail, result>>
TouchPrev == CanTouch /\ DoTouch

CanMake == pc = "incall" /\ "made" \notin flags
DoMake ==
  /\ owned' = owned \cup {<<"U", nextU>>}
  /\ dU' = Append(dU, 0) /\ payload' = Append(payload, 0)
  /\ nextU' = nextU + 1 /\ flags' = flags \cup {"made"}
  /\ UNCHANGED <<n, mismatch, hasbuf, cells, firstMoved, firstTtt, pc, pending, dT, outs, calls,
                 buffer, fail, result>>
MakeOutput == CanMake /\ DoMake

(* the converter returns normally: its frame is gone, so everything it      *)
(* owned and did not hand back has been dropped                             *)
ConvConverted(u) ==
  /\ pc = "incall" /\ owned = {<<"U", u>>}
  /\ owned' = {} /\ pending' = u /\ pc' = "store"
  /\ UNCHANGED <<flags, n, mismatch, hasbuf, cells, firstMoved, firstTtt, dT, dU, payload, nextU, outs, calls,
                 buffer, fail, result>>
ConvAbandoned ==
  /\ pc = "incall" /\ owned = {}
  /\ pc' = "loop"
  /\ UNCHANGED <<flags, n, mismatch, hasbuf, cells, firstMoved, firstTtt, owned, pending, dT, dU, payload,
                 nextU, outs, calls, buffer, fail, result>>
ConvErr(f) ==
  /\ pc = "incall" /\ owned = {}
  /\ pc' = "cleanup" /\ fail' = [kind |-> "err", id |-> f]
  /\ UNCHANGED <<flags, n, mismatch, hasbuf, cells, firstMoved, firstTtt, owned, pending, dT, dU, payload,
                 nextU, outs, calls, buffer, result>>
ConvPanic(f) ==     \* what the frame still owns is dropped while unwinding (DropOwned)
  /\ pc = "incall"
  /\ pc' = "cleanup" /\ fail' = [kind |-> "panic", id |-> f]
  /\ UNCHANGED <<flags, n, mismatch, hasbuf, cells, firstMoved, firstTtt, owned, pending, dT, dU, payload,
                 nextU, outs, calls, buffer, result>>

Store ==
  /\ pc = "store"
  /\ cells' = [cells EXCEPT ![firstMoved + 1] = [k |-> "U", id |-> pending]]
  /\ firstMoved' = firstMoved + 1
  /\ outs' = Append(outs, pending)
  /\ pending' = 0 /\ pc' = "loop"
  /\ UNCHANGED <<flags, n, mismatch, hasbuf, firstTtt, owned, dT, dU, payload, nextU, calls, buffer, fail, result>>

------------------------------------------------------------------------------
(* normal end: set_len(first_moved), the Vec<T> is reinterpreted as Vec<U>  *)
Finish ==
  /\ pc = "loop" /\ firstTtt = n
  /\ result' = [kind |-> "ok", ids |-> outs, payloads |-> [i \in DOMAIN outs |-> payload[outs[i]]], fid |-> 0]
  /\ buffer' = "result" /\ pc' = "caller"
  /\ UNCHANGED <<flags, n, mismatch, hasbuf, cells, firstMoved, firstTtt, owned, pending, dT, dU, payload, nextU,
                 outs, calls, fail>>

(* failure: drop what the buffer still holds, in any order                  *)
LiveCells == {i \in 1..n : cells[i].k # "dead"}
CleanupDrop(i) ==
  /\ pc = "cleanup" /\ i \in LiveCells
  /\ cells' = [cells EXCEPT ![i] = Dead]
  /\ IF cells[i].k = "T" THEN dT' = Bump(dT, cells[i].id) /\ UNCHANGED dU
                         ELSE dU' = Bump(dU, cells[i].id) /\ UNCHANGED dT
  /\ UNCHANGED <<flags, n, mismatch, hasbuf, firstMoved, firstTtt, pc, owned, pending, payload, nextU, outs,
                 calls, buffer, fail, result>>
FreeBuffer ==
  /\ pc = "cleanup" /\ LiveCells = {} /\ buffer \in {"vec", "function"}
  /\ buffer' = "freed"
  /\ UNCHANGED <<flags, n, mismatch, hasbuf, cells, firstMoved, firstTtt, pc, owned, pending, dT, dU, payload,
                 nextU, outs, calls, fail, result>>
Raise ==       \* Err(e) returned / panic resumed with the very same value
  /\ pc = "cleanup" /\ LiveCells = {} /\ owned = {}
  /\ buffer = "freed" \/ "leak_buffer" \in VQuirks
  /\ result' = [kind |-> fail.kind, ids |-> <<>>, payloads |-> <<>>,
                fid |-> IF fail.kind = "panic" /\ "replace_payload" \in VQuirks THEN 999 ELSE fail.id]
  /\ pc' = "end"
  /\ UNCHANGED <<flags, n, mismatch, hasbuf, cells, firstMoved, firstTtt, owned, pending, dT, dU, payload, nextU,
                 outs, calls, buffer, fail>>

(* the caller eventually drops the result vector                            *)
CallerDrop(i) ==
  /\ pc = "caller" /\ i \in LiveCells
  /\ cells' = [cells EXCEPT ![i] = Dead]
  /\ dU' = Bump(dU, cells[i].id)
  /\ UNCHANGED <<flags, n, mismatch, hasbuf, firstMoved, firstTtt, pc, owned, pending, dT, payload, nextU, outs,
                 calls, buffer, fail, result>>
CallerFree ==
  /\ pc = "caller" /\ LiveCells = {}
  /\ buffer' = "freed" /\ pc' = "end"
  /\ UNCHANGED <<flags, n, mismatch, hasbuf, cells, firstMoved, firstTtt, owned, pending, dT, dU, payload, nextU,
                 outs, calls, fail, result>>

VNext ==
  \/ CheckOk \/ Refuse \/ TakeCall
  \/ \E x \in owned : DropOwned(x)
  \/ TouchPrev \/ MakeOutput
  \/ \E u \in 1..(nextU - 1) : ConvConverted(u)
  \/ ConvAbandoned \/ ConvErr(nextU + 100) \/ ConvPanic(nextU + 200)
  \/ Store \/ Finish
  \/ \E i \in 1..n : CleanupDrop(i) \/ CallerDrop(i)
  \/ FreeBuffer \/ Raise \/ CallerFree

------------------------------------------------------------------------------
(* Invariants *)
Running == pc \in {"loop", "incall", "store"}

\* C08
ThreeRegions ==
  Running =>
    /\ firstMoved <= firstTtt /\ firstTtt <= n
    /\ \A i \in 1..n :
         IF i <= firstMoved THEN cells[i].k = "U"
         ELSE IF i <= firstTtt THEN cells[i].k = "dead"
         ELSE cells[i].k = "T" /\ cells[i].id = i
CallsInOrderExactlyOnce ==
  /\ \A i \in DOMAIN calls : calls[i][1] = i
  /\ (result # <<>> /\ result.kind = "ok") => Len(calls) = n
PrevIsLastOutput ==
  \A i \in DOMAIN calls :
     calls[i][2] = (IF calls[i][3] = 0 THEN 0 ELSE outs[calls[i][3]])
ResultIsOutputsInOrder ==
  (result # <<>> /\ result.kind = "ok") =>
     /\ result.ids = outs
     /\ \A i \in DOMAIN outs : result.payloads[i] = payload[outs[i]]
     /\ \A i, j \in DOMAIN outs : i < j => outs[i] < outs[j]
AllocationReused ==
  (result # <<>> /\ result.kind = "ok" /\ pc = "caller") => buffer = "result"

\* C09 / C10
NeverDroppedTwice ==
  /\ \A i \in DOMAIN dT : dT[i] <= 1
  /\ \A u \in DOMAIN dU : dU[u] <= 1
AllDroppedAtEnd ==
  pc = "end" =>
     /\ \A i \in DOMAIN dT : dT[i] = 1
     /\ \A u \in DOMAIN dU : dU[u] = 1
BufferFreedAtEnd == pc = "end" => buffer = "freed"
NoCallAfterFailure == fail # <<>> => (pc \in {"cleanup", "end"})
SamePayload ==
  (result # <<>> /\ result.kind # "ok") => (result.kind = fail.kind /\ result.fid = fail.id)
RefusedBeforeAnyRead ==
  mismatch => (calls = <<>> /\ nextU = 1 /\ (result # <<>> => result.kind = "panic"))
=============================================================================
