SPECIFICATION Spec
CONSTANTS
  Quirks = {}
  Kind = "native"
  ShapeSet = "req"
  Strategies = {"simple", "append_rev"}
  NameMode = "pool"
  NamePool = 2
  Uninits = {FALSE, TRUE}
  AllowBad = TRUE
  MaxData = 4
  MaxVariants = 3
  MaxAddsPerVariant = 3
  CheckConvert = FALSE
VIEW ViewFull
INVARIANTS TypeOK NoOverlap Placed Aligned NonZstStrictlyIncreasing WithinCapacity RecordAlignCoversAll AddressOrdered IdsNeverReused NamesUniquePerVariant TotalOnAccepted ConvertInv
PROPERTIES NeverMoves Frame VariantMembership NoopCloseCreatesNothing
CHECK_DEADLOCK FALSE
