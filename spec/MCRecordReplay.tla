---------------------------- MODULE MCRecordReplay ----------------------------
(* Replay generation for the generated-code lab: MCRecord with the parameters  *)
(* of the definition and the operations performed kept in history variables.   *)
(* One line "REPLAY <json>" per complete life of a record (it ended by drop or *)
(* unpack, or the operation budget is used up).  tools/lab_pipe.py turns the   *)
(* definition parameters into a lab definition (real builder, real generator,  *)
(* rustc) and the operations into a script for the compiled driver.            *)
EXTENDS MCRecord, Json
VARIABLES params, hist
rvars == <<mvars, params, hist>>

RInit ==
  /\ \E k1 \in SeqsUpTo(KindNames, 2), s1 \in Strats, k2 \in SeqsUpTo(KindNames, 1), s2 \in Strats :
       \E rm \in SUBSET (1..Len(k1)) :
          /\ def = MkDefs(k1, s1, rm, k2, s2)
          /\ params = [k1 |-> k1, s1 |-> s1, rm |-> SortedSeq(rm), k2 |-> k2, s2 |-> s2]
  /\ rec = <<>> /\ ext = {} /\ st = <<>> /\ dcount = <<>> /\ viol = {} /\ nops = 0 /\ hist = <<>>

Ended == hist # <<>> /\ (rec = <<>> \/ nops = MaxOps)

RNext ==
  /\ ~(hist # <<>> /\ rec = <<>>)      \* one life per behaviour
  /\ UNCHANGED params
  /\ \/ \E v \in DOMAIN def.variants, full \in BOOLEAN :
          New(v, full) /\ hist' = Append(hist, [op |-> "new", v |-> v, full |-> full, out |-> FALSE, f |-> 0])
     \/ \E f \in 1..4 :
          SetField(f) /\ hist' = Append(hist, [op |-> "set", v |-> 0, full |-> FALSE, out |-> FALSE, f |-> f])
     \/ DropRecord /\ hist' = Append(hist, [op |-> "drop", v |-> 0, full |-> FALSE, out |-> FALSE, f |-> 0])
     \/ Unpack /\ hist' = Append(hist, [op |-> "unpack", v |-> 0, full |-> FALSE, out |-> FALSE, f |-> 0])
     \/ \E full \in BOOLEAN, out \in BOOLEAN :
          Convert(full, out) /\ hist' = Append(hist, [op |-> "convert", v |-> 0, full |-> full, out |-> out, f |-> 0])

RSpec == RInit /\ [][RNext]_rvars

Emit == Ended => PrintT(<<"REPLAY", ToJson([params |-> params, ops |-> hist,
                                            alive |-> rec # <<>>,
                                            offs |-> [i \in DOMAIN def.d |-> def.d[i].off]])>>)
=============================================================================
