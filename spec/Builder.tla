------------------------------- MODULE Builder -------------------------------
(***************************************************************************)
(* The record-definition builder of arnodb/truc as a state machine:        *)
(*   truc/src/record/definition/builder/generic/mod.rs   (shared logic)    *)
(*   truc/src/record/definition/builder/native/mod.rs    (typed facade)    *)
(*   truc/src/record/definition/mod.rs                   (built definition)*)
(*   truc/src/record/definition/convert.rs               (replay helper)   *)
(* One action per public call AND outcome.  Every action is split into a   *)
(* guard (CanX) and an effect (DoX), so that   the trace specification can   *)
(* follow what the implementation did and judge it separately.             *)
(***************************************************************************)
EXTENDS Layout, TLC, Integers

VARIABLES
  kind,        \* "native" | "generic": which builder this is (never changes)
  defs,        \* append-only sequence of [name, size, align, uninit, off]
  variants,    \* sequence of closed variants, each a sequence of datum ids
  toAdd,       \* data_to_add: sequence of ids (insertion order matters)
  toRemove,    \* data_to_remove: set of ids (order is irrelevant to every observer)
  last         \* the last call and its result (what the caller observed)

bvars == <<kind, defs, variants, toAdd, toRemove, last>>
Same == UNCHANGED <<kind, defs, variants, toAdd, toRemove>>

LastVariant == IF variants = <<>> THEN <<>> ELSE variants[Len(variants)]
Kept        == Without(LastVariant, toRemove)
Current     == Kept \o toAdd                              \* get_current_data()
CurrentNames == {defs[Current[i]].name : i \in DOMAIN Current}
HasPending  == variants = <<>> \/ toAdd # <<>> \/ toRemove # {}
Strategy(s, kept, d, adds) ==
  IF kind = "native" THEN NativeStrategy(s, kept, d, adds) ELSE GenericStrategy(s, kept, d, adds)

BInit(k) ==
  /\ kind = k
  /\ defs = <<>> /\ variants = <<>> /\ toAdd = <<>> /\ toRemove = {}
  /\ last = [op |-> "init"]

------------------------------------------------------------------------------
(* add_datum / add_datum_allow_uninit / add_datum_override /               *)
(* add_dynamic_datum / copy_datum: all funnel into generic add_datum       *)
CanAdd(name) == name \notin CurrentNames
DoAdd(name, size, align, uninit) ==
  /\ defs' = Append(defs, [name |-> name, size |-> size, align |-> align,
                           uninit |-> uninit, off |-> UNSET])
  /\ toAdd' = Append(toAdd, Len(defs) + 1)
  /\ UNCHANGED <<kind, variants, toRemove>>
AddOk(name, size, align, uninit) ==
  /\ CanAdd(name) /\ DoAdd(name, size, align, uninit)
  /\ last' = [op |-> "add", name |-> name, size |-> size, align |-> align,
              uninit |-> uninit, res |-> "ok", id |-> Len(defs) + 1]
AddRejected(name, size, align, uninit) ==
  /\ ~CanAdd(name)
  /\ Same
  /\ last' = [op |-> "add", name |-> name, size |-> size, align |-> align,
              uninit |-> uninit, res |-> "err", id |-> 0]

------------------------------------------------------------------------------
(* remove_datum: three-way state machine over last variant / pending adds  *)
IsCarried(id) == id \in SeqToSet(LastVariant)
CanRemoveCarried(id) == IsCarried(id) /\ id \notin toRemove
CanRemovePending(id) == ~IsCarried(id) /\ id \in SeqToSet(toAdd)
CanRemove(id) == CanRemoveCarried(id) \/ CanRemovePending(id)
DoRemoveCarried(id) ==
  /\ toRemove' = toRemove \cup {id} /\ UNCHANGED <<kind, defs, variants, toAdd>>
DoRemovePending(id) ==   \* the definition stays in the collection, unplaced: an orphan
  /\ toAdd' = SelectSeq(toAdd, LAMBDA x : x # id) /\ UNCHANGED <<kind, defs, variants, toRemove>>
RemoveCarried(id) ==
  /\ CanRemoveCarried(id) /\ DoRemoveCarried(id)
  /\ last' = [op |-> "remove", id |-> id, res |-> "ok"]
RemovePending(id) ==
  /\ CanRemovePending(id) /\ DoRemovePending(id)
  /\ last' = [op |-> "remove", id |-> id, res |-> "ok"]
RemoveRejected(id) ==    \* unknown, stale (left an earlier variant) or twice-removed id
  /\ ~CanRemove(id)
  /\ Same
  /\ last' = [op |-> "remove", id |-> id, res |-> "err"]

------------------------------------------------------------------------------
(* close_record_variant[_with]                                             *)
DoClose(list2, defs2) ==       \* abstract: any placement the strategy came up with
  /\ variants' = Append(variants, list2)
  /\ defs' = defs2
  /\ toAdd' = <<>> /\ toRemove' = {} /\ UNCHANGED kind
CloseNew(s) ==                  \* concrete: the transcribed strategy
  /\ HasPending
  /\ LET r == Strategy(s, Kept, defs, toAdd) IN DoClose(r[1], r[2])
  /\ last' = [op |-> "close", strategy |-> s, res |-> Len(variants) + 1]
CloseNoop(s) ==
  /\ ~HasPending
  /\ Same
  /\ last' = [op |-> "close", strategy |-> s, res |-> Len(variants)]

------------------------------------------------------------------------------
(* build(): consumes the builder                                           *)
CanBuild == toAdd = <<>> /\ toRemove = {}
BuildOk ==
  /\ CanBuild /\ Same
  /\ last' = [op |-> "build", res |-> "ok"]
BuildRejected ==
  /\ ~CanBuild /\ Same
  /\ last' = [op |-> "build", res |-> "panic"]

------------------------------------------------------------------------------
(* Observers of a built definition, results as the code computes them      *)
(* (definition/mod.rs:271-335, generator/mod.rs:36-47).  -1 = the call     *)
(* panics.                                                                 *)
SetMax(S, dflt) == IF S = {} THEN dflt ELSE CHOOSE m \in S : \A x \in S : x <= m
VariantIds == UNION {SeqToSet(variants[v]) : v \in DOMAIN variants}
Orphans == {i \in DOMAIN defs : defs[i].off = UNSET}
MaxSize ==
  IF "maxsize_all_defs" \in Quirks
  THEN IF Orphans # {} THEN -1          \* usize::MAX + size overflows
       ELSE SetMax({defs[i].off + defs[i].size : i \in DOMAIN defs}, 0)
  ELSE SetMax({defs[i].off + defs[i].size : i \in VariantIds}, 0)
MaxAlign == SetMax({defs[i].align : i \in DOMAIN defs}, 1)
DisplayPanics == \E v \in DOMAIN variants : ~AddressOrderedIn(variants[v], defs)
GeneratePanics == MaxSize = -1

------------------------------------------------------------------------------
(* Invariants.  Layout facts only make sense for native definitions.       *)
Native == kind = "native"
TypeOK ==
  /\ \A i \in DOMAIN defs : defs[i].size \in Nat /\ defs[i].align \in Nat \ {0}
  /\ \A v \in DOMAIN variants : SeqToSet(variants[v]) \subseteq DOMAIN defs
  /\ SeqToSet(toAdd) \subseteq DOMAIN defs /\ toRemove \subseteq DOMAIN defs

\* C01
NoOverlap == Native => \A v \in DOMAIN variants : NoOverlapIn(variants[v], defs)
\* C02
Placed  == Native => \A v \in DOMAIN variants : PlacedIn(variants[v], defs)
Aligned == Native => \A v \in DOMAIN variants : AlignedIn(variants[v], defs)
NonZstStrictlyIncreasing ==
  Native => \A v \in DOMAIN variants : NonZstIncreasingIn(variants[v], defs)
WithinCapacityOf(cap) ==
  \A i \in VariantIds : defs[i].off + defs[i].size <= cap
WithinCapacity == (Native /\ MaxSize # -1) => WithinCapacityOf(MaxSize)
AlignCovers(a) == \A i \in VariantIds : a % defs[i].align = 0
RecordAlignCoversAll == Native => AlignCovers(MaxAlign)
\* the lemma the strategies rely on (not a listed property)
AddressOrdered ==
  Native => \A v \in DOMAIN variants : AddressOrderedIn(variants[v], defs)

\* C03 (first sentence), as a step property
NeverMovesStep ==
  \A i \in DOMAIN defs : defs[i].off # UNSET => (i \in DOMAIN defs' /\ defs'[i].off = defs[i].off)
NeverMoves == [][NeverMovesStep]_bvars
\* definitions are append-only and only offsets ever change
FrameStep ==
  /\ Len(defs') >= Len(defs)
  /\ \A i \in DOMAIN defs : defs'[i] = [defs[i] EXCEPT !.off = defs'[i].off]
Frame == [][FrameStep]_bvars

\* C12
MembershipStep ==
  Len(variants') # Len(variants) =>
     /\ Len(variants') = Len(variants) + 1
     /\ SubSeq(variants', 1, Len(variants)) = variants
     /\ HasPending
     /\ NoDup(variants'[Len(variants')])
     /\ SeqToSet(variants'[Len(variants')]) = SeqToSet(Kept) \cup SeqToSet(toAdd)
VariantMembership == [][MembershipStep]_bvars
IdsNeverReused ==
  /\ \A a, b, c \in DOMAIN variants :
        (a < b /\ b < c) =>
          \A id \in SeqToSet(variants[a]) \cap SeqToSet(variants[c]) : id \in SeqToSet(variants[b])
  /\ \A i \in DOMAIN toAdd : toAdd[i] \notin VariantIds
  /\ NoDup(toAdd)
  /\ toRemove \subseteq SeqToSet(LastVariant)
NamesUniqueIn(list) ==
  \A i, j \in DOMAIN list : i # j => defs[list[i]].name # defs[list[j]].name
NamesUniquePerVariant ==
  /\ \A v \in DOMAIN variants : NamesUniqueIn(variants[v])
  /\ NamesUniqueIn(Current)
NoopCloseStep ==
  (~HasPending) => variants' = variants
NoopCloseCreatesNothing == [][NoopCloseStep]_bvars

\* C13 (first sentence)
TotalOnAccepted ==
  (Native /\ CanBuild) => (MaxSize # -1 /\ ~DisplayPanics /\ ~GeneratePanics)

------------------------------------------------------------------------------
(* convert_record_definition (definition/convert.rs) replayed as builder   *)
(* calls on a second builder state.  A builder state is a record           *)
(* [defs, variants, toAdd, toRemove]; the helper's own state is the id map *)
(* (source id -> target id) and the variant map.                           *)
EmptyB == [defs |-> <<>>, variants |-> <<>>, toAdd |-> <<>>, toRemove |-> {}]
BLast(b) == IF b.variants = <<>> THEN <<>> ELSE b.variants[Len(b.variants)]
BAdd(b, dd) ==
  [b EXCEPT !.defs = Append(@, [dd EXCEPT !.off = UNSET]),
            !.toAdd = Append(@, Len(b.defs) + 1)]
BRemove(b, id) == [b EXCEPT !.toRemove = @ \cup {id}]
BClose(b, knd, s) ==
  LET kept == Without(BLast(b), b.toRemove)
      r == IF knd = "native" THEN NativeStrategy(s, kept, b.defs, b.toAdd)
           ELSE GenericStrategy(s, kept, b.defs, b.toAdd)
  IN [defs |-> r[2], variants |-> Append(b.variants, r[1]), toAdd |-> <<>>, toRemove |-> {}]

RECURSIVE AddAll(_, _, _, _)
AddAll(b, idmap, srcdefs, ids) ==      \* <<b', idmap'>>
  IF ids = <<>> THEN <<b, idmap>>
  ELSE LET b2 == BAdd(b, srcdefs[Head(ids)]) IN
       AddAll(b2, [i \in DOMAIN idmap \cup {Head(ids)} |->
                     IF i = Head(ids) THEN Len(b2.defs) ELSE idmap[i]],
              srcdefs, Tail(ids))

RECURSIVE ConvertFrom(_, _, _, _, _, _, _)
ConvertFrom(srcdefs, srcvars, v, b, idmap, knd, s) ==
  IF v > Len(srcvars) THEN [b |-> b, idmap |-> idmap]
  ELSE LET old == IF v = 1 THEN <<>> ELSE srcvars[v - 1]
           new == srcvars[v]
           adds == SelectSeq(new, LAMBDA x : x \notin SeqToSet(old))
           rems == {x \in SeqToSet(old) : x \notin SeqToSet(new)}
           b1 == [b EXCEPT !.toRemove = {idmap[x] : x \in rems}]
           a == AddAll(b1, idmap, srcdefs, adds)
       IN ConvertFrom(srcdefs, srcvars, v + 1, BClose(a[1], knd, s), a[2], knd, s)

ConvertModel(srcdefs, srcvars, knd, s) ==
  ConvertFrom(srcdefs, srcvars, 1, EmptyB, <<>>, knd, s)

\* C20: what the caller may rely on, over (source, target, variant map as a
\* sequence: vmap[v] = target variant paired with source variant v)
TypeKey(dd) == <<dd.name, dd.size, dd.align, dd.uninit>>
ConvertPreserves(srcdefs, srcvars, tgtdefs, tgtvars, vmap) ==
  /\ Len(tgtvars) = Len(srcvars)
  /\ Len(vmap) = Len(srcvars)
  /\ \A v \in DOMAIN srcvars : vmap[v] \in DOMAIN tgtvars
  /\ \A v, w \in DOMAIN srcvars : v # w => vmap[v] # vmap[w]
  /\ \A v \in DOMAIN srcvars :
        LET sv == srcvars[v]  tv == tgtvars[vmap[v]] IN
        /\ Len(sv) = Len(tv)
        /\ {TypeKey(srcdefs[sv[i]]) : i \in DOMAIN sv} = {TypeKey(tgtdefs[tv[i]]) : i \in DOMAIN tv}
  \* one target datum per source datum across the variants it spans
  /\ \A v, w \in DOMAIN srcvars :
        \A sd \in SeqToSet(srcvars[v]) \cap SeqToSet(srcvars[w]) :
           \E td \in SeqToSet(tgtvars[vmap[v]]) \cap SeqToSet(tgtvars[vmap[w]]) :
              tgtdefs[td].name = srcdefs[sd].name
  \* and distinct source data never share a target datum
  /\ \A v, w \in DOMAIN srcvars :
        \A sd \in SeqToSet(srcvars[v]), sd2 \in SeqToSet(srcvars[w]) :
           (sd # sd2 /\ srcdefs[sd].name = srcdefs[sd2].name) =>
             \A td \in SeqToSet(tgtvars[vmap[v]]), td2 \in SeqToSet(tgtvars[vmap[w]]) :
                (tgtdefs[td].name = srcdefs[sd].name /\ tgtdefs[td2].name = srcdefs[sd2].name)
                  => td # td2
=============================================================================
