------------------------------- MODULE TypeName -------------------------------
(***************************************************************************)
(* Type terms, their spellings, and what C17 asks of the recorded name.    *)
(*                                                                         *)
(* A term is a tuple: <<"prim", name>>, <<"user", path>>, <<"String">>,    *)
(* <<"BoxStr">>, <<"Unit">>, <<"Box", t>>, <<"Vec", t>>, <<"Option", t>>,  *)
(* <<"Array", t, n>>, <<"BoxSlice", t>>, <<"Result", t, u>>,               *)
(* <<"Tuple", t, u>>.                                                      *)
(* Short(t) is the spelling a user writes in a module that only has the    *)
(* std prelude and its extern crates in scope (exactly the situation of a  *)
(* generated module); Qualified(t) is the spelling std::any::type_name     *)
(* prints (the five std types with their alloc:: / core:: paths).          *)
(* truc records Normalise(Qualified(t)) (record/type_name.rs: a path is    *)
(* shortened iff it is exactly one of five patterns, at every depth).      *)
(* C17: the recorded name, written in generated code, denotes t; a table   *)
(* lookup by any spelling of t (short or qualified at each node, any white *)
(* space) finds what was registered for t.                                 *)
(***************************************************************************)
EXTENDS Naturals, Sequences, FiniteSets, TLC, Json

CONSTANTS Leaves, MaxTerms, BinaryPartners

Unary == {"Box", "Vec", "Option", "Array", "BoxSlice"}
Binary == {"Result", "Tuple"}

RECURSIVE Short(_)
Short(t) ==
  CASE t[1] = "prim"     -> t[2]
    [] t[1] = "user"     -> t[2]
    [] t[1] = "String"   -> "String"
    [] t[1] = "BoxStr"   -> "Box<str>"
    [] t[1] = "Unit"     -> "()"
    [] t[1] = "Box"      -> "Box<" \o Short(t[2]) \o ">"
    [] t[1] = "Vec"      -> "Vec<" \o Short(t[2]) \o ">"
    [] t[1] = "Option"   -> "Option<" \o Short(t[2]) \o ">"
    [] t[1] = "Array"    -> "[" \o Short(t[2]) \o "; " \o ToString(t[3]) \o "]"
    [] t[1] = "BoxSlice" -> "Box<[" \o Short(t[2]) \o "]>"
    [] t[1] = "Result"   -> "Result<" \o Short(t[2]) \o ", " \o Short(t[3]) \o ">"
    [] t[1] = "Tuple"    -> "(" \o Short(t[2]) \o ", " \o Short(t[3]) \o ")"

RECURSIVE Qualified(_)
Qualified(t) ==
  CASE t[1] = "prim"     -> t[2]
    [] t[1] = "user"     -> t[2]
    [] t[1] = "String"   -> "alloc::string::String"
    [] t[1] = "BoxStr"   -> "alloc::boxed::Box<str>"
    [] t[1] = "Unit"     -> "()"
    [] t[1] = "Box"      -> "alloc::boxed::Box<" \o Qualified(t[2]) \o ">"
    [] t[1] = "Vec"      -> "alloc::vec::Vec<" \o Qualified(t[2]) \o ">"
    [] t[1] = "Option"   -> "core::option::Option<" \o Qualified(t[2]) \o ">"
    [] t[1] = "Array"    -> "[" \o Qualified(t[2]) \o "; " \o ToString(t[3]) \o "]"
    [] t[1] = "BoxSlice" -> "alloc::boxed::Box<[" \o Qualified(t[2]) \o "]>"
    [] t[1] = "Result"   -> "core::result::Result<" \o Qualified(t[2]) \o ", " \o Qualified(t[3]) \o ">"
    [] t[1] = "Tuple"    -> "(" \o Qualified(t[2]) \o ", " \o Qualified(t[3]) \o ")"

\* a mixed spelling: qualified at even depth, short at odd depth
RECURSIVE Mixed(_, _)
Mixed(t, q) ==
  LET hd(s, l) == IF q THEN l ELSE s IN
  CASE t[1] \in {"prim", "user"} -> t[2]
    [] t[1] = "String"   -> hd("String", "alloc::string::String")
    [] t[1] = "BoxStr"   -> hd("Box", "alloc::boxed::Box") \o "< str >"
    [] t[1] = "Unit"     -> "( )"
    [] t[1] = "Box"      -> hd("Box", "alloc::boxed::Box") \o " <" \o Mixed(t[2], ~q) \o " >"
    [] t[1] = "Vec"      -> hd("Vec", "alloc::vec::Vec") \o "<  " \o Mixed(t[2], ~q) \o ">"
    [] t[1] = "Option"   -> hd("Option", "core::option::Option") \o "<" \o Mixed(t[2], ~q) \o "> "
    [] t[1] = "Array"    -> "[ " \o Mixed(t[2], ~q) \o " ;" \o ToString(t[3]) \o " ]"
    [] t[1] = "BoxSlice" -> hd("Box", "alloc::boxed::Box") \o "<[" \o Mixed(t[2], ~q) \o " ]>"
    [] t[1] = "Result"   -> hd("Result", "core::result::Result") \o "<" \o Mixed(t[2], ~q) \o " , " \o Mixed(t[3], ~q) \o ">"
    [] t[1] = "Tuple"    -> "(" \o Mixed(t[2], ~q) \o "," \o Mixed(t[3], ~q) \o " )"

Depth0 == Leaves
Level(S) ==
  S \cup {<<c, t>> : c \in Unary \ {"Array"}, t \in S} \cup {<<"Array", t, 3>> : t \in S}
    \cup {<<c, t, u>> : c \in Binary, t \in S, u \in BinaryPartners}
    \cup {<<c, u, t>> : c \in Binary, t \in S, u \in BinaryPartners}
Depth1 == Level(Depth0)
Depth2 == Level(Depth1)
Depth3 == Level(Depth2)
=============================================================================
