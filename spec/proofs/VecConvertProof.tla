--------------------------- MODULE VecConvertProof ---------------------------
(* TLAPS: the three-region invariant of spec/VecConvert.tla (C08) is          *)
(* inductive for vectors of ARBITRARY length and any behaviour of the         *)
(* converter - the unbounded counterpart of what TLC checks for n <= N.       *)
EXTENDS VecConvert, TLAPS

PInit == \E len \in Nat, mm \in BOOLEAN, hb \in BOOLEAN : VInit(len, mm, hb)
PSpec == PInit /\ [][VNext]_vvars

IndInv ==
  /\ n \in Nat /\ firstMoved \in Nat /\ firstTtt \in Nat /\ nextU \in Nat /\ pending \in Nat
  /\ cells \in [1..n -> [k : {"T", "U", "dead"}, id : Nat]]
  /\ pc \in {"check", "loop", "incall", "store", "cleanup", "caller", "end"}
  /\ firstMoved <= firstTtt /\ firstTtt <= n
  /\ (pc \in {"incall", "store"}) => firstMoved < firstTtt
  /\ (pc \in {"check", "loop", "incall", "store"}) =>
        \A i \in 1..n :
           IF i <= firstMoved THEN cells[i].k = "U"
           ELSE IF i <= firstTtt THEN cells[i].k = "dead"
           ELSE cells[i].k = "T" /\ cells[i].id = i
  /\ pc = "check" => (firstMoved = 0 /\ firstTtt = 0)

THEOREM InitInv == PInit => IndInv
  BY DEF PInit, VInit, IndInv

THEOREM InvImplies == IndInv => ThreeRegions
  BY DEF IndInv, ThreeRegions, Running

THEOREM NextInv == IndInv /\ [VNext]_vvars => IndInv'
  <1> SUFFICES ASSUME IndInv, [VNext]_vvars PROVE IndInv'
    OBVIOUS
  <1>1. CASE CheckOk BY <1>1 DEF CheckOk, IndInv
  <1>2. CASE Refuse BY <1>2 DEF Refuse, IndInv
  <1>3. CASE TakeCall BY <1>3 DEF TakeCall, CanTake, DoTakeCall, IndInv, Dead, PrevOut
  <1>4. CASE \E x \in owned : DropOwned(x) BY <1>4 DEF DropOwned, DoDropOwned, IndInv, Bump
  <1>5. CASE TouchPrev BY <1>5 DEF TouchPrev, CanTouch, DoTouch, IndInv, Bump, PrevOut
  <1>6. CASE MakeOutput BY <1>6 DEF MakeOutput, CanMake, DoMake, IndInv
  <1>7. CASE \E u \in 1..(nextU - 1) : ConvConverted(u) BY <1>7 DEF ConvConverted, IndInv
  <1>8. CASE ConvAbandoned BY <1>8 DEF ConvAbandoned, IndInv
  <1>9. CASE ConvErr(nextU + 100) BY <1>9 DEF ConvErr, IndInv
  <1>10. CASE ConvPanic(nextU + 200) BY <1>10 DEF ConvPanic, IndInv
  <1>11. CASE Store BY <1>11 DEF Store, IndInv
  <1>12. CASE Finish BY <1>12 DEF Finish, IndInv
  <1>13. CASE \E i \in 1..n : CleanupDrop(i) \/ CallerDrop(i)
    BY <1>13 DEF CleanupDrop, CallerDrop, IndInv, Dead, LiveCells, Bump
  <1>14. CASE FreeBuffer BY <1>14 DEF FreeBuffer, IndInv
  <1>15. CASE Raise BY <1>15 DEF Raise, IndInv
  <1>16. CASE CallerFree BY <1>16 DEF CallerFree, IndInv
  <1>17. CASE UNCHANGED vvars BY <1>17 DEF vvars, IndInv
  <1> QED BY <1>1, <1>2, <1>3, <1>4, <1>5, <1>6, <1>7, <1>8, <1>9, <1>10, <1>11, <1>12, <1>13, <1>14, <1>15, <1>16, <1>17 DEF VNext

THEOREM Safety == PSpec => []ThreeRegions
  BY InitInv, NextInv, InvImplies, PTL DEF PSpec
==============================================================================
