----------------------------- MODULE VecFailProof -----------------------------
(* TLAPS: failure handling of spec/VecConvert.tla (C09), for vectors of        *)
(* arbitrary length: after a failure the converter is never called again, the  *)
(* buffer is released by the time the call is over, and the caller receives    *)
(* the very error value / panic payload the converter raised.                  *)
EXTENDS VecConvert, TLAPS

ASSUME NoQuirks == VQuirks = {}

PInit == \E len \in Nat, mm \in BOOLEAN, hb \in BOOLEAN : VInit(len, mm, hb)
PSpec == PInit /\ [][VNext]_vvars

Failed == fail \in [kind : {"err", "panic"}, id : Nat]

Inv ==
  /\ nextU \in Nat
  /\ pc \in {"check", "loop", "incall", "store", "cleanup", "caller", "end"}
  /\ fail = <<>> \/ Failed
  /\ Failed => pc \in {"cleanup", "end"}
  /\ pc = "cleanup" => (Failed /\ result = <<>>)
  /\ pc \in {"check", "loop", "incall", "store"} => result = <<>>
  /\ pc = "caller" => (~Failed /\ buffer = "result")
  /\ pc = "end" => buffer = "freed"
  /\ (pc = "end" /\ Failed) => (result = [kind |-> fail.kind, ids |-> <<>>, payloads |-> <<>>, fid |-> fail.id])

THEOREM InitInv == PInit => Inv
  BY DEF PInit, VInit, Inv, Failed

THEOREM NextInv == Inv /\ [VNext]_vvars => Inv'
  <1> SUFFICES ASSUME Inv, [VNext]_vvars PROVE Inv'
    OBVIOUS
  <1> USE NoQuirks DEF Failed
  <1>1. CASE CheckOk BY <1>1 DEF CheckOk, Inv
  <1>2. CASE Refuse BY <1>2 DEF Refuse, Inv
  <1>3. CASE TakeCall BY <1>3 DEF TakeCall, CanTake, DoTakeCall, Inv
  <1>4. CASE \E x \in owned : DropOwned(x) BY <1>4 DEF DropOwned, DoDropOwned, Inv
  <1>5. CASE TouchPrev BY <1>5 DEF TouchPrev, CanTouch, DoTouch, Inv
  <1>6. CASE MakeOutput BY <1>6 DEF MakeOutput, CanMake, DoMake, Inv
  <1>7. CASE \E u \in 1..(nextU - 1) : ConvConverted(u) BY <1>7 DEF ConvConverted, Inv
  <1>8. CASE ConvAbandoned BY <1>8 DEF ConvAbandoned, Inv
  <1>9. CASE ConvErr(nextU + 100) BY <1>9 DEF ConvErr, Inv
  <1>10. CASE ConvPanic(nextU + 200) BY <1>10 DEF ConvPanic, Inv
  <1>11. CASE Store BY <1>11 DEF Store, Inv
  <1>12. CASE Finish BY <1>12 DEF Finish, Inv
  <1>13. CASE \E i \in 1..n : CleanupDrop(i) \/ CallerDrop(i) BY <1>13 DEF CleanupDrop, CallerDrop, Inv
  <1>14. CASE FreeBuffer BY <1>14 DEF FreeBuffer, Inv
  <1>15. CASE Raise BY <1>15 DEF Raise, Inv
  <1>16. CASE CallerFree BY <1>16 DEF CallerFree, Inv
  <1>17. CASE UNCHANGED vvars BY <1>17 DEF vvars, Inv
  <1> QED BY <1>1, <1>2, <1>3, <1>4, <1>5, <1>6, <1>7, <1>8, <1>9, <1>10, <1>11, <1>12, <1>13, <1>14, <1>15, <1>16, <1>17 DEF VNext

NoCallAfterFailureP == Failed => pc \in {"cleanup", "end"}
BufferFreedAtEndP == pc = "end" => buffer = "freed"
SamePayloadP == (pc = "end" /\ Failed) => (result.kind = fail.kind /\ result.fid = fail.id)

THEOREM InvImplies == Inv => (NoCallAfterFailureP /\ BufferFreedAtEndP /\ SamePayloadP)
  BY DEF Inv, NoCallAfterFailureP, BufferFreedAtEndP, SamePayloadP

THEOREM Safety == PSpec => [](NoCallAfterFailureP /\ BufferFreedAtEndP /\ SamePayloadP)
  BY InitInv, NextInv, InvImplies, PTL DEF PSpec
==============================================================================
