----------------------------- MODULE AlignLemmas -----------------------------
(* Unbounded facts about the round-up used by every placement              *)
(* (variant/mod.rs:71), checked by TLAPS.  Side effort: no claim of the    *)
(* framework rests on it (TLC checks Aligned / NoOverlap on every layout). *)
EXTENDS Naturals, TLAPS

AlignBytes(c, a) == ((c + a - 1) \div a) * a

LEMMA DivMod == \A x \in Nat, a \in Nat \ {0} : x = (x \div a) * a + (x % a) /\ (x % a) \in 0..(a - 1)
  OBVIOUS

THEOREM AlignGe == \A c \in Nat, a \in Nat \ {0} : AlignBytes(c, a) >= c
  <1> TAKE c \in Nat, a \in Nat \ {0}
  <1>1. (c + a - 1) = ((c + a - 1) \div a) * a + ((c + a - 1) % a) /\ ((c + a - 1) % a) \in 0..(a - 1)
    BY DivMod
  <1> QED BY <1>1 DEF AlignBytes

THEOREM AlignLt == \A c \in Nat, a \in Nat \ {0} : AlignBytes(c, a) < c + a
  <1> TAKE c \in Nat, a \in Nat \ {0}
  <1>1. (c + a - 1) = ((c + a - 1) \div a) * a + ((c + a - 1) % a) /\ ((c + a - 1) % a) \in 0..(a - 1)
    BY DivMod
  <1> QED BY <1>1 DEF AlignBytes

(* Not proved here: AlignBytes(c, a) % a = 0 and (c % a = 0 => AlignBytes(c, a) = c) need      *)
(* (q * a) % a = 0, a non-linear fact the SMT / Zenon / Isabelle back ends of this tlapm did    *)
(* not discharge within the time box; TLC checks `Aligned` on every explored layout instead.    *)
==============================================================================
