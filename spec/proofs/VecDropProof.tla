----------------------------- MODULE VecDropProof -----------------------------
(* TLAPS: in spec/VecConvert.tla every INPUT element is destroyed exactly once  *)
(* by the time the call is over (C08 success path, C09 failure paths, C10       *)
(* refusal), for vectors of arbitrary length and any converter behaviour.       *)
EXTENDS VecConvert, TLAPS

PInit == \E len \in Nat, mm \in BOOLEAN, hb \in BOOLEAN : VInit(len, mm, hb)
PSpec == PInit /\ [][VNext]_vvars

IsT(i) == cells[i].k = "T"
Own(i) == <<"T", i>> \in owned

Inv ==
  /\ n \in Nat /\ firstMoved \in Nat /\ firstTtt \in Nat /\ nextU \in Nat /\ pending \in Nat
  /\ cells \in [1..n -> [k : {"T", "U", "dead"}, id : Nat]]
  /\ dT \in [1..n -> Nat]
  /\ owned \in SUBSET ({"T", "U"} \X Nat)
  /\ pc \in {"check", "loop", "incall", "store", "cleanup", "caller", "end"}
  /\ firstMoved <= firstTtt /\ firstTtt <= n
  /\ (pc \in {"incall", "store"}) => firstMoved < firstTtt
  /\ (pc \in {"check", "loop", "incall", "store"}) =>
        \A i \in 1..n :
           IF i <= firstMoved THEN cells[i].k = "U"
           ELSE IF i <= firstTtt THEN cells[i].k = "dead"
           ELSE cells[i].k = "T"
  /\ pc = "check" => (firstMoved = 0 /\ firstTtt = 0)
  \* a T cell holds the input of its own index
  /\ \A i \in 1..n : IsT(i) => cells[i].id = i
  \* the converter's frame owns at most the input it was given, and only during / after a call
  /\ \A x \in owned : x[1] = "T" => x[2] \in 1..n
  /\ (pc \in {"check", "loop", "store", "caller", "end"}) => \A i \in 1..n : ~Own(i)
  \* the ledger: not destroyed yet = still somewhere (in the buffer or with the converter), once
  /\ \A i \in 1..n : \/ dT[i] = 0 /\ (IsT(i) \/ Own(i)) /\ ~(IsT(i) /\ Own(i))
                     \/ dT[i] = 1 /\ ~IsT(i) /\ ~Own(i)
  /\ (pc \in {"caller", "end"}) => (\A i \in 1..n : ~IsT(i))

THEOREM InitInv == PInit => Inv
  BY DEF PInit, VInit, Inv, IsT, Own

THEOREM NextInv == Inv /\ [VNext]_vvars => Inv'
  <1> SUFFICES ASSUME Inv, [VNext]_vvars PROVE Inv'
    OBVIOUS
  <1> USE DEF IsT, Own
  <1>1. CASE CheckOk BY <1>1 DEF CheckOk, Inv
  <1>2. CASE Refuse BY <1>2 DEF Refuse, Inv
  <1>3. CASE TakeCall BY <1>3 DEF TakeCall, CanTake, DoTakeCall, Inv, Dead, PrevOut
  <1>4. CASE \E x \in owned : DropOwned(x) BY <1>4 DEF DropOwned, DoDropOwned, Inv, Bump
  <1>5. CASE TouchPrev BY <1>5 DEF TouchPrev, CanTouch, DoTouch, Inv, Bump, PrevOut
  <1>6. CASE MakeOutput BY <1>6 DEF MakeOutput, CanMake, DoMake, Inv
  <1>7. CASE \E u \in 1..(nextU - 1) : ConvConverted(u) BY <1>7 DEF ConvConverted, Inv
  <1>8. CASE ConvAbandoned BY <1>8 DEF ConvAbandoned, Inv
  <1>9. CASE ConvErr(nextU + 100) BY <1>9 DEF ConvErr, Inv
  <1>10. CASE ConvPanic(nextU + 200) BY <1>10 DEF ConvPanic, Inv
  <1>11. CASE Store BY <1>11 DEF Store, Inv
  <1>12. CASE Finish BY <1>12 DEF Finish, Inv
  <1>13. CASE \E i \in 1..n : CleanupDrop(i) \/ CallerDrop(i)
    <2>1. PICK j \in 1..n : CleanupDrop(j) \/ CallerDrop(j)
      BY <1>13
    <2>2. CASE CleanupDrop(j)
      BY <2>2 DEF CleanupDrop, Inv, Dead, LiveCells, Bump
    <2>3. CASE CallerDrop(j)
      BY <2>3 DEF CallerDrop, Inv, Dead, LiveCells, Bump
    <2> QED BY <2>1, <2>2, <2>3
  <1>14. CASE FreeBuffer BY <1>14 DEF FreeBuffer, Inv
  <1>15. CASE Raise
    <2>1. \A i \in 1..n : cells[i].k = "dead"
      BY <1>15 DEF Raise, LiveCells
    <2> QED BY <1>15, <2>1 DEF Raise, Inv
  <1>16. CASE CallerFree
    <2>1. \A i \in 1..n : cells[i].k = "dead"
      BY <1>16 DEF CallerFree, LiveCells
    <2> QED BY <1>16, <2>1 DEF CallerFree, Inv
  <1>17. CASE UNCHANGED vvars BY <1>17 DEF vvars, Inv
  <1> QED BY <1>1, <1>2, <1>3, <1>4, <1>5, <1>6, <1>7, <1>8, <1>9, <1>10, <1>11, <1>12, <1>13, <1>14, <1>15, <1>16, <1>17 DEF VNext

InputsNeverDroppedTwice == \A i \in 1..n : dT[i] <= 1
InputsAllDroppedAtEnd == pc = "end" => \A i \in 1..n : dT[i] = 1

THEOREM InvImplies == Inv => (InputsNeverDroppedTwice /\ InputsAllDroppedAtEnd)
  BY DEF Inv, InputsNeverDroppedTwice, InputsAllDroppedAtEnd, IsT, Own

THEOREM Safety == PSpec => [](InputsNeverDroppedTwice /\ InputsAllDroppedAtEnd)
  BY InitInv, NextInv, InvImplies, PTL DEF PSpec
==============================================================================
