----------------------------- MODULE AppendProof -----------------------------
(* Unbounded facts about the `append` placement (variant/mod.rs push_datum, *)
(* dummy.rs), stated over the definitions of spec/Layout.tla itself and     *)
(* checked by TLAPS:                                                        *)
(*   PushKeepsOrder   one push_datum step keeps a variant address-ordered   *)
(*                    and leaves every other datum alone                    *)
(*   OrderedNoOverlap an address-ordered variant has no two data sharing a  *)
(*                    byte (C01) and its sized data increase (C02)          *)
(* AppendAll is the fold of Push over the added data: every step of it      *)
(* preserves AddressOrderedIn, whatever the number, sizes and alignments of *)
(* the data.  Side effort: no registered check rests on it.                 *)
EXTENDS LayoutDefs, NaturalsInduction, TLAPS

DatumT == [off : Nat, size : Nat, align : Nat \ {0}]

LEMMA DivMod == \A x \in Nat, a \in Nat \ {0} : x = (x \div a) * a + (x % a) /\ (x % a) \in 0..(a - 1)
  OBVIOUS

LEMMA AlignGe == \A c \in Nat, a \in Nat \ {0} : AlignBytes(c, a) >= c /\ AlignBytes(c, a) \in Nat
  <1> TAKE c \in Nat, a \in Nat \ {0}
  <1>1. (c + a - 1) = ((c + a - 1) \div a) * a + ((c + a - 1) % a) /\ ((c + a - 1) % a) \in 0..(a - 1)
    BY DivMod
  <1> QED BY <1>1 DEF AlignBytes

THEOREM PushKeepsOrder ==
  ASSUME NEW n \in Nat, NEW d \in [1..n -> DatumT], NEW list \in Seq(1..n), NEW id \in 1..n,
         \A i \in DOMAIN list : list[i] # id,
         AddressOrderedIn(list, d)
  PROVE  LET p == Push(list, d, id) IN
           /\ AddressOrderedIn(p[1], p[2])
           /\ p[1] = Append(list, id)
           /\ p[2] \in [1..n -> DatumT]
           /\ \A k \in 1..n : k # id => p[2][k] = d[k]
           /\ p[2][id].off >= End(list, d)
  <1> DEFINE e == End(list, d)
             off == AlignBytes(e, d[id].align)
             l2 == Append(list, id)
             d2 == [d EXCEPT ![id].off = off]
  <1>1. e \in Nat
    BY DEF End, DatumT
  <1>2. off \in Nat /\ off >= e
    BY <1>1, AlignGe DEF DatumT
  <1>3. d2 \in [1..n -> DatumT]
    BY <1>2 DEF DatumT
  <1>4. \A k \in 1..n : k # id => d2[k] = d[k]
    OBVIOUS
  <1>5. d2[id].off = off /\ d2[id].size = d[id].size
    BY DEF DatumT
  <1>6. Len(l2) = Len(list) + 1 /\ l2[Len(list) + 1] = id /\ \A i \in 1..Len(list) : l2[i] = list[i]
    OBVIOUS
  <1>7. AddressOrderedIn(l2, d2)
    <2> SUFFICES ASSUME NEW i \in 1..(Len(l2) - 1)
                 PROVE  d2[l2[i]].off + d2[l2[i]].size <= d2[l2[i + 1]].off
      BY DEF AddressOrderedIn
    <2>1. l2[i] = list[i] /\ list[i] \in 1..n /\ list[i] # id
      BY <1>6
    <2>2. d2[l2[i]] = d[list[i]]
      BY <2>1, <1>4
    <2>3. CASE i < Len(list)
      <3>1. l2[i + 1] = list[i + 1] /\ list[i + 1] \in 1..n /\ list[i + 1] # id
        BY <2>3, <1>6
      <3>2. d2[l2[i + 1]] = d[list[i + 1]]
        BY <3>1, <1>4
      <3>3. d[list[i]].off + d[list[i]].size <= d[list[i + 1]].off
        BY <2>3 DEF AddressOrderedIn
      <3> QED BY <2>2, <3>2, <3>3
    <2>4. CASE i = Len(list)
      <3>1. l2[i + 1] = id
        BY <2>4, <1>6
      <3>2. list # <<>> /\ e = d[list[Len(list)]].off + d[list[Len(list)]].size
        BY <2>4 DEF End
      <3> QED BY <2>2, <2>4, <3>1, <3>2, <1>2, <1>5
    <2> QED BY <2>3, <2>4, <1>6
  <1> QED BY <1>2, <1>3, <1>4, <1>5, <1>7 DEF Push

THEOREM OrderedNoOverlap ==
  ASSUME NEW n \in Nat, NEW d \in [1..n -> DatumT], NEW list \in Seq(1..n),
         AddressOrderedIn(list, d)
  PROVE  /\ NoOverlapIn(list, d)
         /\ \A i, j \in DOMAIN list : i < j => d[list[i]].off + d[list[i]].size <= d[list[j]].off
  <1> DEFINE P(m) == \A i \in DOMAIN list : i + m + 1 \in DOMAIN list
                        => d[list[i]].off + d[list[i]].size <= d[list[i + m + 1]].off
  <1> HIDE DEF P
  <1>0. \A i \in DOMAIN list : list[i] \in 1..n /\ d[list[i]] \in DatumT
    OBVIOUS
  <1>1. P(0)
    BY <1>0 DEF P, AddressOrderedIn
  <1>2. \A m \in Nat : P(m) => P(m + 1)
    <2> TAKE m \in Nat
    <2> HAVE P(m)
    <2> SUFFICES ASSUME NEW i \in DOMAIN list, i + (m + 1) + 1 \in DOMAIN list
                 PROVE  d[list[i]].off + d[list[i]].size <= d[list[i + (m + 1) + 1]].off
      BY DEF P
    <2>1. i + m + 1 \in DOMAIN list /\ i + m + 1 \in 1..(Len(list) - 1)
      OBVIOUS
    <2>2. d[list[i]].off + d[list[i]].size <= d[list[i + m + 1]].off
      BY <2>1 DEF P
    <2>3. d[list[i + m + 1]].off + d[list[i + m + 1]].size <= d[list[i + m + 1 + 1]].off
      BY <2>1 DEF AddressOrderedIn
    <2>4. d[list[i]] \in DatumT /\ d[list[i + m + 1]] \in DatumT /\ d[list[i + m + 1 + 1]] \in DatumT
      BY <1>0, <2>1
    <2> QED BY <2>2, <2>3, <2>4 DEF DatumT
  <1>3. \A m \in Nat : P(m)
    BY <1>1, <1>2, NatInduction, Isa
  <1>4. \A i, j \in DOMAIN list : i < j => d[list[i]].off + d[list[i]].size <= d[list[j]].off
    <2> TAKE i, j \in DOMAIN list
    <2> HAVE i < j
    <2>1. j - i - 1 \in Nat /\ i + (j - i - 1) + 1 = j
      OBVIOUS
    <2> QED BY <2>1, <1>3 DEF P
  <1>5. NoOverlapIn(list, d)
    BY <1>4 DEF NoOverlapIn, Disjoint
  <1> QED BY <1>4, <1>5
==============================================================================
