--------------------------- MODULE AlignApalache ---------------------------
(***************************************************************************)
(* Side check with Apalache (tools/proofs; no registered check rests on    *)
(* it).  Decided symbolically by Z3 for EVERY natural caret / gap / size   *)
(* and the power-of-two alignments up to 64:                               *)
(*  - the lemma the TLAPS back ends did not discharge in AlignLemmas.tla   *)
(*    (the round-up used by every strategy lands on a multiple of the      *)
(*    alignment), together with its companions;                            *)
(*  - HoleFit: the placement step of `basic` (Layout.tla, BasicWalk) keeps *)
(*    a datum put between two neighbours inside the hole, aligned;         *)
(*  - EndOfGap: the "start or end of the gap" choice of `simple`           *)
(*    (Layout.tla, StartOrEnd) keeps the shifted datum aligned, inside the *)
(*    gap, and leaves less than one alignment unit after it.               *)
(* Run:  apalache-mc check --inv=Inv --length=0 AlignApalache.tla          *)
(*       apalache-mc check --inv=Wrong --length=0 ...   (must report Error) *)
(***************************************************************************)
EXTENDS Integers

VARIABLES
  \* @type: Int;
  c,    \* a caret, or the start of a gap / the end of the left neighbour
  \* @type: Int;
  e,    \* the end of the gap / the offset of the right neighbour
  \* @type: Int;
  s,    \* size of the datum being placed
  \* @type: Int;
  a     \* its alignment

AlignBytes(cc, aa) == ((cc + aa - 1) \div aa) * aa

Init == c \in Nat /\ e \in Nat /\ s \in Nat /\ a \in {1, 2, 4, 8, 16, 32, 64}
Next == UNCHANGED <<c, e, s, a>>

Multiple   == AlignBytes(c, a) % a = 0
NotBelow   == AlignBytes(c, a) >= c
Tight      == AlignBytes(c, a) < c + a
Idempotent == AlignBytes(AlignBytes(c, a), a) = AlignBytes(c, a)
Fixpoint   == (c % a = 0) => AlignBytes(c, a) = c
Monotone   == (c <= e) => AlignBytes(c, a) <= AlignBytes(e, a)

HoleFit ==
  LET b == AlignBytes(c, a) IN
  (c <= e /\ b + s <= e) => (c <= b /\ b % a = 0 /\ b + s <= e)

EndOfGap ==
  LET ds == AlignBytes(c, a)
      de == ds + s
      after == e - de
      delta == (after \div a) * a
  IN (after >= 0) =>
       /\ delta >= 0
       /\ (ds + delta) % a = 0
       /\ ds + delta >= c
       /\ de + delta <= e
       /\ e - (de + delta) < a

Inv == Multiple /\ NotBelow /\ Tight /\ Idempotent /\ Fixpoint /\ Monotone /\ HoleFit /\ EndOfGap

\* sanity (expected to FAIL): the round-up is not always the caret itself
Wrong == AlignBytes(c, a) = c
=============================================================================
