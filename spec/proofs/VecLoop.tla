------------------------------- MODULE VecLoop -------------------------------
(* The loop of try_convert_vec_in_place reduced to what the three-region     *)
(* invariant needs (cells, first_moved, first_ttt, "an element is held"),    *)
(* for an arbitrary length n: TLAPS proves that ThreeRegions is inductive.   *)
(* VecConvert.tla refines this loop (TakeCall = Take, ConvConverted+Store =  *)
(* Store, ConvAbandoned = Abandon); TLC checks the refined model for small n *)
(* and validates real executions against it.                                 *)
EXTENDS Naturals, TLAPS

CONSTANT n
ASSUME NNat == n \in Nat

VARIABLES cells, fm, ft, held
vars == <<cells, fm, ft, held>>

Init == /\ cells = [i \in 1..n |-> "T"]
        /\ fm = 0 /\ ft = 0 /\ held = FALSE

Take == /\ ~held /\ ft < n
        /\ cells' = [cells EXCEPT ![ft + 1] = "dead"]
        /\ ft' = ft + 1 /\ held' = TRUE /\ UNCHANGED fm

Store == /\ held
         /\ cells' = [cells EXCEPT ![fm + 1] = "U"]
         /\ fm' = fm + 1 /\ held' = FALSE /\ UNCHANGED ft

Abandon == /\ held /\ held' = FALSE /\ UNCHANGED <<cells, fm, ft>>

Next == Take \/ Store \/ Abandon
Spec == Init /\ [][Next]_vars

ThreeRegions ==
  /\ cells \in [1..n -> {"T", "U", "dead"}]
  /\ fm \in Nat /\ ft \in Nat /\ held \in BOOLEAN
  /\ fm <= ft /\ ft <= n
  /\ held => fm < ft
  /\ \A i \in 1..n : /\ (i <= fm) => cells[i] = "U"
                     /\ (fm < i /\ i <= ft) => cells[i] = "dead"
                     /\ (ft < i) => cells[i] = "T"

THEOREM InitInv == Init => ThreeRegions
  BY NNat DEF Init, ThreeRegions

THEOREM NextInv == ThreeRegions /\ [Next]_vars => ThreeRegions'
  <1> SUFFICES ASSUME ThreeRegions, [Next]_vars PROVE ThreeRegions'
    OBVIOUS
  <1>1. CASE Take
    BY <1>1, NNat DEF Take, ThreeRegions
  <1>2. CASE Store
    BY <1>2, NNat DEF Store, ThreeRegions
  <1>3. CASE Abandon
    BY <1>3, NNat DEF Abandon, ThreeRegions
  <1>4. CASE UNCHANGED vars
    BY <1>4 DEF vars, ThreeRegions
  <1> QED BY <1>1, <1>2, <1>3, <1>4 DEF Next

THEOREM Safety == Spec => []ThreeRegions
  BY InitInv, NextInv, PTL DEF Spec
==============================================================================
