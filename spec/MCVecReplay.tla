----------------------------- MODULE MCVecReplay -----------------------------
(* Replay generation for the vector conversion: the converter's behaviour   *)
(* in each call is drawn as a plan when the call starts (drop the input     *)
(* early or late, touch the previous output, build an output, how the call  *)
(* ends) and then executed step by step with the actions of VecConvert.     *)
(* One line "REPLAY <json>" per complete behaviour: the length and the      *)
(* plans, which harness/vec_driver executes on the real runtime.            *)
EXTENDS VecConvert, Json
CONSTANT N
VARIABLES plan, stage, hist
rvars == <<vvars, plan, stage, hist>>

Ends == {"converted", "abandoned", "err", "panic"}
Plans == {p \in [early : BOOLEAN, touch : BOOLEAN, make : BOOLEAN, end : Ends] :
            p.end = "converted" => p.make}

RInit == /\ \E len \in 0..N : VInit(len, FALSE, len > 0)
         /\ plan = <<>> /\ stage = 0 /\ hist = <<>>

Held == CHOOSE x \in owned : x[1] = "T"
Made == CHOOSE x \in owned : x[1] = "U"
HasT == \E x \in owned : x[1] = "T"
HasU == \E x \in owned : x[1] = "U"
MinLive == CHOOSE i \in LiveCells : \A j \in LiveCells : i <= j

InCall ==
  /\ pc = "incall"
  /\ CASE stage = 0 -> /\ IF plan.early THEN DropOwned(Held) ELSE UNCHANGED vvars
                       /\ stage' = 1
       [] stage = 1 -> /\ IF plan.touch /\ CanTouch THEN TouchPrev ELSE UNCHANGED vvars
                       /\ stage' = 2
       [] stage = 2 -> /\ IF plan.make THEN MakeOutput ELSE UNCHANGED vvars
                       /\ stage' = 3
       [] stage = 3 -> \* before a normal return the frame gives up what it still owns
                       IF plan.end # "panic" /\ HasT THEN DropOwned(Held) /\ stage' = 3
                       ELSE IF plan.end \in {"abandoned", "err"} /\ HasU THEN DropOwned(Made) /\ stage' = 3
                       ELSE /\ stage' = 4
                            /\ CASE plan.end = "converted" -> ConvConverted(Made[2])
                                 [] plan.end = "abandoned" -> ConvAbandoned
                                 [] plan.end = "err"       -> ConvErr(7)
                                 [] plan.end = "panic"     -> ConvPanic(7)
  /\ UNCHANGED <<plan, hist>>

RNext ==
  \/ /\ CheckOk /\ UNCHANGED <<plan, stage, hist>>
  \/ /\ \E p \in Plans : /\ TakeCall /\ plan' = p /\ hist' = Append(hist, p) /\ stage' = 0
  \/ InCall
  \/ /\ pc \in {"store", "loop", "cleanup", "caller"} /\ UNCHANGED <<plan, stage, hist>>
     /\ \/ Store \/ Finish
        \/ \E x \in owned : pc = "cleanup" /\ DropOwned(x)
        \/ (owned = {} /\ LiveCells # {} /\ (CleanupDrop(MinLive) \/ CallerDrop(MinLive)))
        \/ FreeBuffer \/ Raise \/ CallerFree

RSpec == RInit /\ [][RNext]_rvars

Emit == (pc = "end") => PrintT(<<"REPLAY", ToJson([n |-> n, script |-> hist, outs |-> outs,
                                                   result |-> result.kind])>>)
=============================================================================
