------------------------------- MODULE TypeTable -------------------------------
(***************************************************************************)
(* The pre-computed type table (truc/src/record/type_resolver.rs:          *)
(* StaticTypeResolver) as a state machine over type TERMS (TypeName.tla):  *)
(* Register(t, info) rejects a second registration; a typed lookup of t    *)
(* and a lookup by ANY spelling of t answer what was registered for t;     *)
(* the JSON round trip and the From<BTreeMap> constructor are the          *)
(* identity on the answers.                                                *)
(***************************************************************************)
EXTENDS Naturals, Sequences, FiniteSets, TLC

VARIABLES
  table,     \* term id -> [size, align, uninit] as registered
  host       \* term id -> [size, align] as the host resolver answered

Info(s, a, u) == [size |-> s, align |-> a, uninit |-> u]

TTInit == table = <<>> /\ host = <<>>

CanRegister(id) == id \notin DOMAIN table
DoRegister(id, info) == table' = [x \in (DOMAIN table) \cup {id} |-> IF x = id THEN info ELSE table[x]]

\* what a lookup of term id must answer in a table derived from `table` by the transformation
\* `phase` ("registered" / "reloaded": identity; "doctored": the harness' foreign-target edit)
Expected(id, phase) ==
  IF phase = "doctored"
  THEN Info(table[id].size + 8, table[id].align * 2, ~table[id].uninit)
  ELSE table[id]

LookupOk(id, phase, hit, size, align, uninit, kind) ==
  /\ id \in DOMAIN table
  /\ hit
  /\ size = Expected(id, phase).size
  /\ align = Expected(id, phase).align
  /\ (kind = "dynamic" => uninit = Expected(id, phase).uninit)
=============================================================================
